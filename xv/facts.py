"""Fact store: runs the xfacts clang plugin over the instantiation matrix (and the repo's own test
TUs), merges and de-duplicates the per-function CFG records, and offers CFG / expression helpers.

Nothing in here executes xenium code; the compiler is run with -fsyntax-only.
"""
import fcntl
import glob
import hashlib
import json
import os
import pickle
import subprocess
import sys
import time
from concurrent.futures import ThreadPoolExecutor

VERIF = os.path.dirname(os.path.dirname(os.path.abspath(__file__)))
REPO = os.environ.get("XV_REPO", "/repo")
PLUGIN = os.path.join(VERIF, "build", "xfacts.so")
CACHE = os.environ.get("XV_CACHE", os.path.join(VERIF, ".cache"))

VARIANTS = {
    # production build: explicit fences, TSAN_MEMORY_ORDER -> normal order
    "prod": ["-DNDEBUG"],
    # the variant the test-suite compiles (-fsanitize=thread => XENIUM_TSAN)
    "tsan": ["-DNDEBUG", "-fsanitize=thread"],
}


def ensure_plugin():
    src = os.path.join(VERIF, "plugin", "xfacts.cc")
    if os.path.exists(PLUGIN) and os.path.getmtime(PLUGIN) >= os.path.getmtime(src):
        return
    os.makedirs(os.path.dirname(PLUGIN), exist_ok=True)
    cxxflags = subprocess.check_output(["llvm-config-14", "--cxxflags"], text=True).split()
    cxxflags = [f for f in cxxflags if not f.startswith("-std=")]
    tmp = PLUGIN + ".tmp%d" % os.getpid()
    cmd = ["clang++"] + cxxflags + ["-std=c++17", "-fno-rtti", "-fPIC", "-shared", "-O1", src, "-o", tmp]
    subprocess.check_call(cmd)
    os.replace(tmp, PLUGIN)


def translation_units(tier):
    """[(name, path, extra flags)]"""
    tus = []
    for p in sorted(glob.glob(os.path.join(VERIF, "inst", "*.cpp"))):
        tus.append(("inst/" + os.path.basename(p), p, []))
    if tier == "thorough":
        for p in sorted(glob.glob(os.path.join(VERIF, "inst", "thorough", "*.cpp"))):
            tus.append(("inst/thorough/" + os.path.basename(p), p, []))
    gt = ["-isystem", os.path.join(REPO, "3rdParty/gtest/googletest/include"),
          "-isystem", os.path.join(REPO, "3rdParty/gtest/googletest")]
    for p in sorted(glob.glob(os.path.join(REPO, "test", "**", "*.cpp"), recursive=True)):
        tus.append(("test/" + os.path.relpath(p, os.path.join(REPO, "test")), p, gt))
    return tus


INCLUDE_RE = None


def _tu_deps(path, seen):
    """transitive closure of #include "..."/<...> that resolve inside REPO or VERIF/inst (regex scan, no preprocessing:
    over-approximates conditional includes, which only makes the cache key more conservative)"""
    import re
    global INCLUDE_RE
    if INCLUDE_RE is None:
        INCLUDE_RE = re.compile(r'^\s*#\s*include\s*[<"]([^>"]+)[>"]', re.M)
    if path in seen:
        return
    seen.add(path)
    try:
        txt = open(path, encoding="utf-8", errors="replace").read()
    except OSError:
        return
    for inc in INCLUDE_RE.findall(txt):
        for base in (os.path.dirname(path), REPO, os.path.join(VERIF, "inst")):
            cand = os.path.normpath(os.path.join(base, inc))
            if os.path.isfile(cand) and (cand.startswith(REPO + "/") or cand.startswith(VERIF + "/")):
                _tu_deps(cand, seen)
                break


_file_hash_cache = {}


def _fhash(path):
    h = _file_hash_cache.get(path)
    if h is None:
        with open(path, "rb") as fh:
            h = hashlib.sha256(fh.read()).hexdigest()
        _file_hash_cache[path] = h
    return h


def _plugin_hash():
    return _fhash(os.path.join(VERIF, "plugin", "xfacts.cc")) + _fhash(os.path.abspath(__file__))


def tu_key(path, variant, extra):
    deps = set()
    _tu_deps(path, deps)
    h = hashlib.sha256()
    h.update(_plugin_hash().encode())
    h.update(variant.encode())
    h.update(" ".join(VARIANTS[variant]).encode())
    for d in sorted(deps):
        rel = d.replace(REPO + "/", "R/").replace(VERIF + "/", "V/")
        h.update(rel.encode())
        h.update(_fhash(d).encode())
    return h.hexdigest()[:32]


class AnalysisBroken(Exception):
    """exit code 2: the analysis could not be performed (never a verdict)"""


def _rel(p):
    return p.replace(REPO + "/", "") if p.startswith(REPO + "/") else p


def _run_tu(args):
    name, path, extra, variant, key = args
    tudir = os.path.join(CACHE, "tu")
    pk = os.path.join(tudir, key + ".pickle")
    if os.path.exists(pk):
        try:
            with open(pk, "rb") as fh:
                d = pickle.load(fh)
            os.utime(pk)
            d["cached"] = True
            return d
        except Exception:
            pass
    out = os.path.join(tudir, key + ".%d.jsonl" % os.getpid())
    cmd = ["clang++", "-fsyntax-only", "-std=gnu++17", "-w", "-I" + REPO, "-I" + os.path.join(VERIF, "inst")] + VARIANTS[variant] + extra + [
        "-fplugin=" + PLUGIN, "-Xclang", "-add-plugin", "-Xclang", "xfacts",
        "-Xclang", "-plugin-arg-xfacts", "-Xclang", "out=" + out,
        "-Xclang", "-plugin-arg-xfacts", "-Xclang", "root=" + os.path.join(REPO, "xenium"),
        path]
    t0 = time.time()
    r = subprocess.run(cmd, stdout=subprocess.PIPE, stderr=subprocess.STDOUT, text=True)
    d = {"name": name, "variant": variant, "rc": r.returncode, "log": r.stdout[-3000:], "fns": [], "recs": [], "summary": None,
         "seconds": round(time.time() - t0, 2), "cached": False}
    if r.returncode == 0 and os.path.exists(out):
        with open(out) as fh:
            for line in fh:
                rec = json.loads(line)
                kind = rec.pop("kind")
                if kind == "fn":
                    rec["file"] = _rel(rec["file"])
                    insts = rec.pop("insts")
                    k = hashlib.sha1(json.dumps(rec, sort_keys=True).encode()).hexdigest()
                    d["fns"].append((k, rec, insts[:12]))
                elif kind == "rec":
                    rec["file"] = _rel(rec["file"])
                    full = rec.pop("full")
                    k = hashlib.sha1(json.dumps(rec, sort_keys=True).encode()).hexdigest()
                    d["recs"].append((k, rec, full))
                elif kind == "summary":
                    d["summary"] = rec
        tmp = pk + ".tmp%d" % os.getpid()
        with open(tmp, "wb") as fh:
            pickle.dump(d, fh, protocol=pickle.HIGHEST_PROTOCOL)
        os.replace(tmp, pk)
    try:
        os.unlink(out)
    except OSError:
        pass
    return d


def build_facts(tier="quick"):
    ensure_plugin()
    os.makedirs(os.path.join(CACHE, "tu"), exist_ok=True)
    jobs = []
    for name, path, extra in translation_units(tier):
        for variant in VARIANTS:
            jobs.append((name, path, extra, variant, tu_key(path, variant, extra)))
    key = hashlib.sha256((" ".join(sorted(j[0] + j[3] + j[4] for j in jobs))).encode()).hexdigest()[:24]
    pk = os.path.join(CACHE, key + ".pickle")
    if os.path.exists(pk):
        try:
            with open(pk, "rb") as fh:
                d = pickle.load(fh)
            os.utime(pk)
            return d
        except Exception:
            pass
    lock = open(os.path.join(CACHE, "lock"), "w")
    fcntl.flock(lock, fcntl.LOCK_EX)
    try:
        if os.path.exists(pk):
            with open(pk, "rb") as fh:
                return pickle.load(fh)
        t0 = time.time()
        with ThreadPoolExecutor(max_workers=int(os.environ.get("XV_JOBS", "16"))) as ex:
            results = list(ex.map(_run_tu, jobs))
        shapes = {}
        records = {}
        tu_info = []
        for d in results:
            name, variant = d["name"], d["variant"]
            if d["rc"] != 0 or d["summary"] is None:
                raise AnalysisBroken("translation unit %s (%s) does not compile:\n%s" % (name, variant, d["log"]))
            if d["summary"]["cfgfail"]:
                raise AnalysisBroken("CFG construction failed for %d functions in %s" % (d["summary"]["cfgfail"], name))
            for k, rec, insts in d["fns"]:
                e = shapes.get(k)
                if e is None:
                    e = shapes[k] = dict(rec)
                    e["insts"] = []
                    e["variants"] = set()
                    e["tus"] = set()
                for i in insts:
                    if len(e["insts"]) < 12 and i not in e["insts"]:
                        e["insts"].append(i)
                e["variants"].add(variant)
                e["tus"].add(name)
            for k, rec, full in d["recs"]:
                e = records.get(k)
                if e is None:
                    e = records[k] = dict(rec)
                    e["fulls"] = []
                    e["variants"] = set()
                if len(e["fulls"]) < 12 and full not in e["fulls"]:
                    e["fulls"].append(full)
                e["variants"].add(variant)
            tu_info.append({"tu": name, "variant": variant, "functions": d["summary"]["functions"], "shapes": d["summary"]["shapes"],
                            "cfgfail": 0, "seconds": d["seconds"], "cached": d["cached"]})
        data = {"key": key, "shapes": list(shapes.values()), "records": list(records.values()), "tus": tu_info,
                "build_s": round(time.time() - t0, 2)}
        tmp = pk + ".tmp%d" % os.getpid()
        with open(tmp, "wb") as fh:
            pickle.dump(data, fh, protocol=pickle.HIGHEST_PROTOCOL)
        os.replace(tmp, pk)
        # keep the cache small
        olds = sorted(glob.glob(os.path.join(CACHE, "*.pickle")), key=os.path.getmtime)
        for o in olds[:-6]:
            try:
                os.unlink(o)
            except OSError:
                pass
        olds = sorted(glob.glob(os.path.join(CACHE, "tu", "*.pickle")), key=os.path.getmtime)
        for o in olds[:-600]:
            try:
                os.unlink(o)
            except OSError:
                pass
        return data
    finally:
        fcntl.flock(lock, fcntl.LOCK_UN)
        lock.close()


# ------------------------------------------------------------------------------------------------
ATOMIC_CLASSES = ("std::atomic", "std::__atomic_base", "std::atomic_flag", "std::__atomic_flag_base",
                  "xenium::reclamation::detail::concurrent_ptr")
ATOMIC_OPS = {
    "load": "load", "store": "store", "exchange": "rmw", "compare_exchange_weak": "cas", "compare_exchange_strong": "cas",
    "fetch_add": "rmw", "fetch_sub": "rmw", "fetch_or": "rmw", "fetch_and": "rmw", "fetch_xor": "rmw",
    "test_and_set": "rmw", "clear": "store",
    # implicit seq_cst forms
    "operator conv": "load", "operator=": "store", "operator++": "rmw", "operator--": "rmw", "operator+=": "rmw",
    "operator-=": "rmw", "operator|=": "rmw", "operator&=": "rmw", "operator^=": "rmw",
}
ORDER_RANK = {"relaxed": 0, "consume": 1, "acquire": 2, "release": 2, "acq_rel": 3, "seq_cst": 4}


def order_geq(actual, required):
    """partial order relaxed < {acquire, release} < acq_rel < seq_cst (consume treated as acquire-lite)"""
    if required == "relaxed":
        return True
    if actual == required:
        return True
    if actual not in ORDER_RANK:
        return False
    if actual == "seq_cst":
        return True
    if actual == "acq_rel":
        return required in ("acquire", "release", "consume", "acq_rel")
    if actual == "acquire":
        return required in ("consume", "acquire")
    return False


class Fn:
    """one function shape (CFG + nodes)"""

    def __init__(self, rec):
        self.rec = rec
        self.pat = rec["pat"]
        self.file = rec["file"]
        self.line = rec["line"]
        self.endline = rec["endline"]
        self.doc = rec.get("doc", "")
        self.insts = rec["insts"]
        self.variants = rec["variants"]
        self.tus = rec["tus"]
        self.nodes = rec["nodes"]
        self.params = rec["params"]
        self.cls = rec.get("cls")
        self.blocks = {b["id"]: b for b in rec["blocks"]}
        self.entry = rec["entry"]
        self.exit = rec["exit"]
        for b in self.blocks.values():
            b["succ"] = [s if (isinstance(s, int) and s >= 0) else None for s in b["succ"]]
            b["elems"] = [e for e in b["elems"] if not self._noise(self.nodes[e])]
        self._preds = None
        self._dom = None
        self._pdom = None
        self._pos = None
        self.inlined_helper = False

    @staticmethod
    def _noise(n):
        return (n["k"] == "member" and n.get("method")) or (n["k"] == "ref" and n.get("dk") == "func")

    # ---- identity
    def where(self, nid=None):
        rel = self.file
        if nid is None:
            return "%s:%d" % (rel, self.line)
        return "%s:%d" % (rel, self.nodes[nid].get("l", 0) or self.line)

    @property
    def relfile(self):
        return self.file

    # ---- CFG
    def preds(self):
        if self._preds is None:
            p = {b: [] for b in self.blocks}
            for b, blk in self.blocks.items():
                for s in blk["succ"]:
                    if s is not None:
                        p[s].append(b)
            self._preds = p
        return self._preds

    def pos(self):
        """node id -> (block, index) for nodes listed as CFG elements"""
        if self._pos is None:
            d = {}
            for b, blk in self.blocks.items():
                for i, e in enumerate(blk["elems"]):
                    d.setdefault(e, (b, i))
            self._pos = d
        return self._pos

    def reachable_blocks(self, start=None, removed_edges=(), removed_blocks=()):
        start = self.entry if start is None else start
        seen = set()
        if start in removed_blocks:
            return seen
        st = [start]
        seen.add(start)
        removed_edges = set(removed_edges)
        while st:
            b = st.pop()
            for s in self.blocks[b]["succ"]:
                if s is None or s in seen or s in removed_blocks or (b, s) in removed_edges:
                    continue
                seen.add(s)
                st.append(s)
        return seen

    def live_blocks(self):
        return self.reachable_blocks()

    def dominators(self):
        if self._dom is None:
            self._dom = _dominators(self.entry, {b: [s for s in blk["succ"] if s is not None] for b, blk in self.blocks.items()})
        return self._dom

    def postdominators(self):
        if self._pdom is None:
            # exits: the exit block plus noreturn/throw blocks with no successors
            rev = {b: [] for b in self.blocks}
            for b, blk in self.blocks.items():
                for s in blk["succ"]:
                    if s is not None:
                        rev[s].append(b)
            self._pdom = _dominators(self.exit, rev)
        return self._pdom

    def events(self, live_only=True):
        """(block, index, node id, node) in block order (blocks by descending id = roughly source order)"""
        live = self.live_blocks() if live_only else None
        for b in sorted(self.blocks, reverse=True):
            if live is not None and b not in live:
                continue
            for i, e in enumerate(self.blocks[b]["elems"]):
                yield b, i, e, self.nodes[e]

    def before(self, a, b):
        """event a strictly precedes event b on every path reaching b (a dominates b)"""
        pa, pb = self.pos().get(a), self.pos().get(b)
        if pa is None or pb is None:
            return False
        if pa[0] == pb[0]:
            return pa[1] < pb[1]
        return pa[0] in self.dominators().get(pb[0], ())

    def event_reaches(self, a, b, removed_edges=(), removed_blocks=()):
        """is there a path from just after event a to event b"""
        pa, pb = self.pos().get(a), self.pos().get(b)
        if pa is None or pb is None:
            return False
        if pa[0] == pb[0] and pa[1] < pb[1]:
            return True
        seen = set()
        st = []
        for s in self.blocks[pa[0]]["succ"]:
            if s is not None and (pa[0], s) not in removed_edges and s not in removed_blocks:
                st.append(s)
        while st:
            x = st.pop()
            if x in seen:
                continue
            seen.add(x)
            if x == pb[0]:
                return True
            for s in self.blocks[x]["succ"]:
                if s is not None and (x, s) not in removed_edges and s not in removed_blocks:
                    st.append(s)
        return False

    # ---- expressions
    def kids(self, nid):
        return [c for c in self.nodes[nid]["c"] if c >= 0]

    def subtree(self, nid, seen=None):
        if seen is None:
            seen = []
        seen.append(nid)
        for c in self.kids(nid):
            self.subtree(c, seen)
        return seen

    def expr(self, nid, depth=0):
        """readable normalised S-expression"""
        if nid is None or nid < 0 or depth > 12:
            return "_"
        n = self.nodes[nid]
        k = n["k"]
        c = self.kids(nid)
        e = lambda i: self.expr(c[i], depth + 1) if i < len(c) else "_"
        if k == "lit":
            return str(n.get("v"))
        if k == "ref":
            nm = n["name"]
            if n.get("dk") in ("enumconst",):
                return nm.split("::")[-1]
            return nm if n.get("dk") in ("local", "param") else nm.split("::")[-1]
        if k == "member":
            return e(0) + ("->" if n.get("arrow") else ".") + n["leaf"]
        if k == "this":
            return "this"
        if k == "null":
            return "nullptr"
        if k == "call":
            leaf = n.get("callee", "?").split("::")[-1]
            args = [self.expr(x, depth + 1) for x in c]
            if n.get("member") and args:
                if leaf.startswith("operator") and leaf not in ("operator conv",):
                    op = leaf[len("operator"):]
                    if op == "->":
                        return args[0] + "->"
                    if op == "*" and len(args) == 1:
                        return "*" + args[0]
                    if op == "()":
                        return args[0] + "(" + ", ".join(args[1:]) + ")"
                    if op == "[]":
                        return args[0] + "[" + ", ".join(args[1:]) + "]"
                    if len(args) == 2:
                        return "(" + args[0] + " " + op + " " + args[1] + ")"
                    return op + args[0]
                if leaf == "operator conv":
                    return "conv(" + args[0] + ")"
                return args[0] + "." + leaf + "(" + ", ".join(args[1:]) + ")"
            return leaf + "(" + ", ".join(args) + ")"
        if k == "construct":
            leaf = n.get("callee", "?").split("::")[-1]
            return leaf + "{" + ", ".join(self.expr(x, depth + 1) for x in c) + "}"
        if k == "bin":
            return "(" + e(0) + " " + n["op"] + " " + e(1) + ")"
        if k == "un":
            return (e(0) + n["op"]) if n.get("post") else (n["op"] + e(0))
        if k == "cast":
            return n["ck"] + "_cast<" + n.get("t", "?").split("::")[-1] + ">(" + e(0) + ")"
        if k == "cond":
            return "(" + e(0) + " ? " + e(1) + " : " + e(2) + ")"
        if k == "index":
            return e(0) + "[" + e(1) + "]"
        if k == "new":
            return "new" + ("(" + ", ".join(self.expr(x, depth + 1) for x in c[:n.get("nplace", 0)]) + ")" if n.get("placement") else "") + " " + n["what"].split("::")[-1]
        if k == "delete":
            return "delete " + e(0)
        if k == "decl":
            return "; ".join(v["name"] + (" = " + self.expr(v["init"], depth + 1) if "init" in v else "") for v in n["vars"])
        if k == "return":
            return "return " + (e(0) if c else "")
        if k == "throw":
            return "throw " + n.get("what", "")
        if k == "lambda":
            return "[lambda]"
        if k == "init":
            return n["leaf"] + "(" + (e(0) if c else "") + ")"
        if k == "autodtor":
            return "~" + n["name"]
        if k == "sizeof":
            return "sizeof(" + n.get("of", "?") + ")"
        if "v" in n:
            return str(n["v"])
        return k + "(" + ", ".join(self.expr(x, depth + 1) for x in c) + ")"

    # ---- atomic operations
    def atomic(self, nid):
        """None or dict(op, kind, obj (node id or None), field (str), orders [..], cls)"""
        n = self.nodes[nid]
        if n["k"] != "call":
            return None
        callee = n.get("callee", "")
        if callee == "std::atomic_thread_fence":
            return {"op": "fence", "kind": "fence", "obj": None, "field": "<fence>", "orders": n.get("mo", []), "nid": nid}
        cls = n.get("cls", "")
        base = cls.split("<")[0].replace("const ", "")
        if not n.get("member") or base not in ATOMIC_CLASSES:
            return None
        leaf = callee.split("::")[-1]
        if leaf not in ATOMIC_OPS:
            return None
        kind = ATOMIC_OPS[leaf]
        c = self.kids(nid)
        obj = c[0] if c else None
        orders = list(n.get("mo", []))
        if not orders:
            orders = ["seq_cst"]
        if kind == "cas" and len(orders) == 1:
            # single-order CAS: failure order derived from success order
            s = orders[0]
            orders = [s, {"acq_rel": "acquire", "release": "relaxed"}.get(s, s)]
        return {"op": leaf, "kind": kind, "obj": obj, "field": self.field_of(obj), "orders": orders, "nid": nid, "cls": cls}

    def _alias_init(self, name):
        """(init node, is_pointer) if the local is a reference bound once, or a pointer initialised once and afterwards only stepped (++/--)"""
        cache = self.__dict__.setdefault("_alias_cache", {})
        if name in cache:
            return cache[name]
        res = None
        decl = None
        for b, i, e, n in self.events(live_only=False):
            if n["k"] == "decl":
                for v in n["vars"]:
                    if v["name"] == name and "init" in v:
                        decl = v
        if decl is not None:
            t = decl.get("t", "").strip()
            is_ref = t.endswith("&") or t.endswith("]") or "(&)" in t
            is_ptr = t.endswith("*") or t.endswith("*const")
            if is_ref or is_ptr:
                ok = True
                for b, i, e, n in self.events(live_only=False):
                    c = self.kids(e)
                    if n["k"] == "bin" and n["op"].endswith("=") and n["op"] not in ("==", "!=", "<=", ">=") and c and self.nodes[c[0]]["k"] == "ref" and self.nodes[c[0]].get("name") == name:
                        ok = False      # re-assigned / re-seated
                    if n["k"] == "call" and n.get("callee", "").endswith("operator=") and c and self.nodes[c[0]]["k"] == "ref" and self.nodes[c[0]].get("name") == name and is_ptr:
                        ok = False
                if ok:
                    res = (decl["init"], is_ptr)
        cache[name] = res
        return res

    def field_of(self, nid, _depth=0):
        """name of the field / variable an object expression designates (last member in the access chain)"""
        if nid is None:
            return "?"
        n = self.nodes[nid]
        k = n["k"]
        if k == "member":
            return n["name"]
        if k == "ref":
            if n.get("dk") == "local" and _depth < 6:
                # a reference (or an element pointer that is only stepped) designates what it was bound to: `auto& b = buckets[i]`, range-for variables
                al = self._alias_init(n["name"])
                if al is not None:
                    init, is_ptr = al
                    f = self.field_of(init, _depth + 1)
                    if not f.startswith("?") and not f.startswith("local:") and not f.startswith("call:"):
                        return (f + "[]") if (is_ptr and not f.endswith("[]")) else f
            return ("%s:%s" % (n.get("dk"), n["name"])) if n.get("dk") in ("local", "param") else n["name"]
        if k == "index":
            return self.field_of(self.kids(nid)[0], _depth + 1) + "[]"
        if k == "un" and n["op"] == "*":
            inner = self.field_of(self.kids(nid)[0], _depth + 1)
            return inner if inner.endswith("[]") else "*" + inner
        if k == "call":
            leaf = n.get("callee", "").split("::")[-1]
            c = self.kids(nid)
            if leaf in ("operator[]", "operator*", "operator->") and c:
                return self.field_of(c[0]) + ("[]" if leaf == "operator[]" else "")
            if len(n.get("inl_rets", ())) == 1:
                # a virtually inlined accessor (xv/inline.py): the object is what the helper returns
                return self.field_of(n["inl_rets"][0])
            return "call:" + n.get("callee", "?")
        if k == "cast":
            return self.field_of(self.kids(nid)[0])
        if k == "this":
            return "this"
        return "?"

    def atomics(self):
        out = []
        for b, i, e, n in self.events():
            a = self.atomic(e)
            if a:
                a["block"] = b
                a["idx"] = i
                out.append(a)
        return out

    def calls(self, callee_suffix=None):
        for b, i, e, n in self.events():
            if n["k"] in ("call", "construct"):
                if callee_suffix is None or n.get("callee", "").endswith(callee_suffix):
                    yield b, i, e, n


def _dominators(entry, succ):
    nodes = set(succ)
    # only reachable
    reach = set()
    st = [entry]
    while st:
        x = st.pop()
        if x in reach:
            continue
        reach.add(x)
        st.extend(s for s in succ.get(x, ()) if s not in reach)
    preds = {n: [] for n in reach}
    for n in reach:
        for s in succ.get(n, ()):
            if s in reach:
                preds[s].append(n)
    dom = {n: set(reach) for n in reach}
    dom[entry] = {entry}
    changed = True
    order = sorted(reach, reverse=True)
    while changed:
        changed = False
        for n in order:
            if n == entry:
                continue
            ps = [dom[p] for p in preds[n]]
            new = set.intersection(*ps) if ps else set()
            new = new | {n}
            if new != dom[n]:
                dom[n] = new
                changed = True
    return dom


class Facts:
    def __init__(self, tier="quick"):
        t0 = time.time()
        self.data = build_facts(tier)
        self.key = self.data["key"]
        shapes = self.data["shapes"]
        self.inline_report = {"new_patterns": [], "expanded": []}
        if not os.environ.get("XV_NO_INLINE"):
            from . import inline
            known = inline.load_known(VERIF)
            if known is not None:
                shapes, self.inline_report = inline.inline_new_helpers(shapes, known)
        self.fns = [Fn(r) for r in shapes]
        self.known_patterns = set()
        self.known_callers = {}
        try:
            self.known_patterns = set(json.load(open(os.path.join(VERIF, "tables", "known_patterns.json"))))
            self.known_callers = json.load(open(os.path.join(VERIF, "tables", "known_calls.json")))
        except (OSError, ValueError):
            pass
        # helpers that were expanded into their callers are judged in that context; per-function scans skip their stand-alone shape
        expanded = {x["callee"] for x in self.inline_report["expanded"]}
        for f in self.fns:
            f.inlined_helper = f.pat in expanded
        self.by_pat = {}
        for f in self.fns:
            self.by_pat.setdefault(f.pat, []).append(f)
        self.records = self.data["records"]
        self.rec_by_pat = {}
        for r in self.records:
            self.rec_by_pat.setdefault(r["pat"], []).append(r)
        self.tus = self.data["tus"]
        self.load_s = time.time() - t0

    def shapes(self, pat):
        return self.by_pat.get(pat, [])

    def merged_into(self, pat):
        """a function the rules were written for that no longer exists, while the functions that used to call it still do: its body was inlined
        into its callers (or it was dropped).  Returns the shapes of those callers - the rule is then evaluated where the code now lives."""
        if pat in self.by_pat or pat not in self.known_patterns:
            return []
        out = []
        for c in self.known_callers.get(pat, []):
            out.extend(self.by_pat.get(c, []))
        if not out and "::(lambda" in pat:
            # a lambda that was handed to an algorithm (std::for_each ...) has no xenium caller; when it is replaced by a plain loop its body now
            # lives in the enclosing function
            # ... or, when the lambda moved together with the algorithm call into a newly extracted helper, in that helper's lambda
            encl = pat[:pat.index("::(lambda")]
            cls = encl[:encl.rindex("::") + 2] if "::" in encl else encl
            moved = [f for q, fs in self.by_pat.items() if "::(lambda" in q and q not in self.known_patterns and q.startswith(cls) for f in fs]
            out.extend(moved if moved else self.by_pat.get(encl, []))
        return out

    def vanished_callee(self, name):
        """name (leaf or qualified suffix) designates only functions that existed on the tree the rules were written for and exist no more"""
        known = [p for p in self.known_patterns if p == name or p.endswith("::" + name)]
        if not known:
            return False
        return not any(p in self.by_pat for p in known) and not any(q == name or q.endswith("::" + name) for q in self.by_pat)

    def require(self, pat):
        s = self.by_pat.get(pat)
        if not s:
            raise AnalysisBroken("anchor vanished: no instantiated function with pattern %s" % pat)
        return s

    def in_file(self, suffix):
        return [f for f in self.fns if f.file.endswith(suffix)]

    def stats(self):
        return {"translation_units": len(self.tus), "function_instantiations": sum(t["functions"] for t in self.tus),
                "function_shapes": len(self.fns), "patterns": len(self.by_pat), "record_shapes": len(self.records),
                "facts_key": self.key}


if __name__ == "__main__":
    f = Facts()
    print(json.dumps(f.stats(), indent=1))
    print("build_s", f.data["build_s"], "load_s", round(f.load_s, 2))
