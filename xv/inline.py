"""Virtual inlining of helper functions that did not exist when the rules were written.

The rules are keyed by function patterns (qualified names).  The most common behaviour-preserving refactoring that would otherwise blind
or confuse an intra-procedural rule is "extract these statements into a private helper / a local lambda".  tables/known_patterns.json
freezes the set of function patterns of the tree the rules were authored against; a call from an analysed function to a xenium function
whose pattern is NOT in that set (a new helper, a new lambda) is expanded in place: the callee's CFG is spliced into the caller's at the
call, parameters are bound to the argument expressions, callee locals are renamed apart, `return` in the callee becomes a jump to the
continuation.  On the tree the rules were written for nothing is inlined (no unknown patterns), so this never perturbs an established
verdict; after a helper extraction the rule sees the same shape as before the refactoring.  A change that moves code into a helper is thus
judged by what the helper does, not by where the text lives."""
import copy
import json
import os

MAX_ROUNDS = 4
MAX_INLINES_PER_FN = 12


def load_known(verif):
    p = os.path.join(verif, "tables", "known_patterns.json")
    if not os.path.exists(p):
        return None
    return set(json.load(open(p)))


def _class_prefix(inst):
    # "a::b<c>::f" -> "a::b<c>::" ; template-argument aware split on the last top-level "::"
    depth = 0
    last = -1
    i = 0
    while i < len(inst):
        ch = inst[i]
        if ch in "<(":
            depth += 1
        elif ch in ">)":
            depth -= 1
        elif ch == ":" and depth == 0 and inst[i:i + 2] == "::":
            last = i
            i += 1
        i += 1
    return inst[:last + 2] if last >= 0 else ""


def _leaf_targs(inst):
    """non-type template arguments of the function itself in an instantiation name: 'a<b>::f<true, 3>' -> ['1', '3']"""
    if not inst.endswith(">"):
        return None
    depth = 0
    for i in range(len(inst) - 1, -1, -1):
        ch = inst[i]
        if ch == ">":
            depth += 1
        elif ch == "<":
            depth -= 1
            if depth == 0:
                args = inst[i + 1:-1]
                out, d, cur = [], 0, ""
                for c in args:
                    if c in "<(":
                        d += 1
                    elif c in ">)":
                        d -= 1
                    if c == "," and d == 0:
                        out.append(cur.strip())
                        cur = ""
                    else:
                        cur += c
                out.append(cur.strip())
                return [{"true": "1", "false": "0"}.get(x, x) for x in out]
    return None


def _pick_callee(caller_rec, shapes, call=None):
    if len(shapes) == 1:
        return shapes[0]
    if call is not None and call.get("targs"):
        want = [str(int(x)) if isinstance(x, bool) else str(x) for x in call["targs"]]
        for s in shapes:
            for i in s.get("insts", []):
                la = _leaf_targs(i)
                if la is not None and la[:len(want)] == want:
                    return s
    prefixes = {_class_prefix(i) for i in caller_rec.get("insts", [])}
    for s in shapes:
        if any(_class_prefix(i) in prefixes or any(i.startswith(p) for p in prefixes if p) for i in s.get("insts", [])):
            return s
    # prefer a shape analysed in the same build variants
    for s in shapes:
        if set(s.get("variants", [])) & set(caller_rec.get("variants", [])):
            return s
    return shapes[0]


def _strip_casts(nodes, nid):
    for _ in range(6):
        n = nodes[nid]
        if n["k"] == "cast" and n.get("c") and n["c"][0] >= 0:
            nid = n["c"][0]
            continue
        break
    return nid


def _splice(rec, blk, idx, call_nid, cal, serial):
    """expand callee record `cal` at event index idx (the call) of block dict blk inside caller record rec (modified in place)"""
    nodes = rec["nodes"]
    call = nodes[call_nid]
    N0 = len(nodes)
    kids = [c for c in call["c"] if c >= 0]
    is_lambda = "(lambda" in cal["pat"]
    if call.get("member") and kids:
        obj, args = kids[0], kids[1:]
    else:
        obj, args = None, kids
    params = cal.get("params", [])
    pname = {p["name"]: j for j, p in enumerate(params) if p.get("name")}
    # names declared in the callee (renamed apart)
    declared = set()
    for n in cal["nodes"]:
        if n["k"] == "decl":
            for v in n.get("vars", []):
                declared.add(v["name"])
    pref = "inl%d$" % serial
    entry_decls = []
    byval = {}
    for name, j in pname.items():
        t = params[j].get("t", "")
        if not (t.endswith("&") or t.endswith("&&")) and j < len(args):
            byval[name] = pref + name
    new_nodes = []
    ret_refs = []
    retvar = pref + "ret"
    for n in cal["nodes"]:
        m = copy.deepcopy(n)
        m["c"] = [(c + N0 if c >= 0 else c) for c in m.get("c", [])]
        if isinstance(m.get("asize"), int) and m["asize"] >= 0:
            m["asize"] += N0
        if m["k"] == "decl":
            for v in m.get("vars", []):
                if "init" in v and v["init"] >= 0:
                    v["init"] += N0
                v["name"] = pref + v["name"]
        elif m["k"] == "ref" and m.get("dk") == "local" and m.get("name") in declared:
            m["name"] = pref + m["name"]
        elif m["k"] == "ref" and m.get("dk") == "param" and m.get("name") in pname:
            j = pname[m["name"]]
            if m["name"] in byval:
                m["dk"] = "local"
                m["name"] = byval[m["name"]]
            elif j < len(args):
                a = _strip_casts(nodes, args[j])
                an = nodes[a]
                if an["k"] == "ref" and an.get("dk") in ("local", "param"):
                    m["dk"] = an["dk"]
                    m["name"] = an["name"]
                else:
                    m = {"k": "cast", "ck": "inl", "l": m.get("l", 0), "t": m.get("t", ""), "c": [args[j]]}
        elif m["k"] == "this" and not is_lambda and obj is not None:
            m = {"k": "cast", "ck": "inl", "l": m.get("l", 0), "t": m.get("t", ""), "c": [obj]}
        elif m["k"] == "return":
            # `return X;` becomes `<ret var> = X;` followed by the jump to the continuation; the call expression reads <ret var>
            if m.get("c") and m["c"][0] >= 0:
                ret_refs.append(len(new_nodes))          # patched below (needs the id of a fresh reference node)
                m["k"] = "bin"
                m["op"] = "="
                m["inl_return"] = True
                m["inl_value"] = m["c"][0]
            else:
                m["k"] = "inl_return"
        elif m["k"] == "autodtor" and m.get("name") in declared:
            m["name"] = pref + m["name"]
        m["inl"] = serial
        new_nodes.append(m)
    nodes.extend(new_nodes)
    for k_ in ret_refs:
        m = new_nodes[k_]
        nodes.append({"k": "ref", "dk": "local", "name": retvar, "l": m.get("l", 0), "t": cal.get("ret", ""), "c": [], "inl": serial})
        m["c"] = [len(nodes) - 1, m["inl_value"]]
    # by-value parameters: synthetic declarations at the callee entry
    for name, newname in byval.items():
        j = pname[name]
        nodes.append({"k": "decl", "l": call.get("l", 0), "vars": [{"name": newname, "t": params[j].get("t", ""), "init": args[j]}], "c": [args[j]], "inl": serial})
        entry_decls.append(len(nodes) - 1)
    # reference arguments handed to the expanded body are not uses by themselves
    for j, a in enumerate(args):
        if j < len(params) and (params[j].get("t", "").endswith("&")):
            nodes[_strip_casts(nodes, a)]["inl_arg"] = True
    blocks = rec["blocks"]
    BO = max(b["id"] for b in blocks) + 1
    cal_ids = [b["id"] for b in cal["blocks"]]
    cont_id = BO + max(cal_ids) + 1
    cont = {"id": cont_id, "elems": blk["elems"][idx:], "succ": list(blk["succ"])}
    for k in ("term", "tl", "cond", "label", "termkind"):
        if k in blk:
            cont[k] = blk.pop(k)
    blk["elems"] = blk["elems"][:idx]
    blk["succ"] = [BO + cal["entry"]]
    for b in cal["blocks"]:
        nb = {"id": BO + b["id"], "elems": [e + N0 for e in b["elems"]],
              "succ": [(s + BO if isinstance(s, int) and s >= 0 else s) for s in b["succ"]]}
        for k in ("term", "tl", "label", "termkind"):
            if k in b:
                nb[k] = b[k]
        if "cond" in b and isinstance(b["cond"], int) and b["cond"] >= 0:
            nb["cond"] = b["cond"] + N0
        if b["id"] == cal["exit"]:
            nb["succ"] = [cont_id]
        if b["id"] == cal["entry"]:
            nb["elems"] = entry_decls + nb["elems"]
        nb["inl"] = serial
        blocks.append(nb)
    blocks.append(cont)
    if rec["exit"] == blk["id"]:
        rec["exit"] = cont_id
    call["inlined"] = cal["pat"]
    call["inl_rets"] = [m["inl_value"] for m in new_nodes if m.get("inl_return")]
    if call["inl_rets"]:
        call["inl_ret_var"] = retvar
    _thread_constant_returns(rec, cont, call_nid, new_nodes, N0, BO, cal)
    return cont


def _cond_on_call(nodes, cont, call_nid):
    """if the continuation block only tests the value of the inlined call (possibly through `!`, casts, `== true/false` or a local initialised
    from it), returns the polarity (True: the block's true edge is taken when the call returned true); else None"""
    if "cond" not in cont or len(cont.get("succ", [])) != 2:
        return None
    pol = True
    nid = cont["cond"]
    alias = set()
    for e in cont["elems"]:
        n = nodes[e]
        if n["k"] == "decl" and len(n.get("vars", [])) == 1 and "init" in n["vars"][0] and _strip_casts(nodes, n["vars"][0]["init"]) == call_nid:
            alias.add(n["vars"][0]["name"])
    for _ in range(12):
        n = nodes[nid]
        c = [x for x in n.get("c", []) if x >= 0]
        if nid == call_nid:
            break
        if n["k"] == "un" and n.get("op") == "!" and c:
            pol = not pol
            nid = c[0]
        elif n["k"] == "cast" and c:
            nid = c[0]
        elif n["k"] == "ref" and n.get("dk") == "local" and n.get("name") in alias:
            nid = call_nid
        elif n["k"] == "bin" and n.get("op") in ("==", "!=") and len(c) == 2 and nodes[c[1]]["k"] == "lit" and nodes[c[1]].get("v") in (0, 1):
            if (n["op"] == "==") != bool(nodes[c[1]]["v"]):
                pol = not pol
            nid = c[0]
        else:
            return None
    else:
        return None
    # the block must not do anything else
    for e in cont["elems"]:
        n = nodes[e]
        if e == call_nid or n["k"] in ("un", "cast", "lit", "ref"):
            continue
        if n["k"] == "decl" and len(n.get("vars", [])) == 1 and n["vars"][0]["name"] in alias:
            continue
        if n["k"] == "bin" and n.get("op") in ("==", "!="):
            continue
        return None
    return pol


def _thread_constant_returns(rec, cont, call_nid, new_nodes, N0, BO, cal):
    """jump threading: `if (!helper(..)) return empty;` where helper has `return true;` / `return false;` exits - each constant return jumps
    straight to the branch the caller takes for that value, so the decision stays control dependent on the helper's own conditions"""
    nodes = rec["nodes"]
    pol = _cond_on_call(nodes, cont, call_nid)
    if pol is None:
        return
    by_id = {b["id"]: b for b in rec["blocks"]}
    for b in cal["blocks"]:
        nb = by_id.get(BO + b["id"])
        if nb is None or not nb["elems"]:
            continue
        rets = [e for e in nb["elems"] if nodes[e].get("inl_return")]
        if not rets:
            continue
        v = nodes[_strip_casts(nodes, nodes[rets[-1]]["inl_value"])]
        if v["k"] == "lit" and v.get("v") in (0, 1):
            target = cont["succ"][0] if bool(v["v"]) == pol else cont["succ"][1]
            if target is not None:
                nb["succ"] = [target]
                nb["threaded"] = True


def inline_new_helpers(shape_recs, known):
    """shape_recs: list of function shape records (dicts).  Returns (new list, report) where calls to xenium functions whose pattern is not in
    `known` are expanded in the callers.  Records without such calls are returned unchanged (same objects)."""
    by_pat = {}
    for r in shape_recs:
        by_pat.setdefault(r["pat"], []).append(r)
    new_pats = {p for p in by_pat if p not in known and p.startswith("xenium::")}
    report = {"new_patterns": sorted(new_pats), "expanded": []}
    if not new_pats:
        return shape_recs, report
    out = []
    serial = [0]
    for r in shape_recs:
        if not any(n["k"] == "call" and n.get("callee") in new_pats for n in r["nodes"]):
            out.append(r)
            continue
        rec = copy.deepcopy(r)
        done = 0
        for _round in range(MAX_ROUNDS):
            changed = False
            for blk in list(rec["blocks"]):
                i = 0
                while i < len(blk["elems"]):
                    e = blk["elems"][i]
                    n = rec["nodes"][e]
                    if n["k"] == "call" and n.get("callee") in new_pats and not n.get("inlined") and n.get("callee") != rec["pat"] and done < MAX_INLINES_PER_FN:
                        cal = _pick_callee(rec, by_pat[n["callee"]], n)
                        serial[0] += 1
                        done += 1
                        cont = _splice(rec, blk, i, e, cal, serial[0])
                        report["expanded"].append({"caller": rec["pat"], "callee": cal["pat"], "line": n.get("l", 0)})
                        changed = True
                        blk = cont          # continue scanning behind the call in the continuation block
                        i = 1
                        continue
                    i += 1
            if not changed:
                break
        out.append(rec)
    return out, report
