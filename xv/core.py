"""Check context: obligations, violations, known findings, evidence files, exit codes."""
import json
import os
import re
import sys
import time

from .facts import VERIF, REPO, AnalysisBroken, Facts

KNOWN = os.path.join(VERIF, "known_findings.txt")


def load_known():
    findings, fixed = [], []
    if os.path.exists(KNOWN):
        for line in open(KNOWN):
            line = line.strip()
            if not line or line.startswith("#"):
                continue
            m = re.match(r"finding:\s+property=(\S+)\s+rule=(\S+)\s+instance=(\S+)\s+(.*)", line)
            if m:
                findings.append({"property": m.group(1), "rule": m.group(2), "instance": m.group(3), "text": m.group(4)})
                continue
            m = re.match(r"fixed:\s+property=(\S+)\s+(\S+)\s+(.*)", line)
            if m:
                fixed.append({"property": m.group(1), "commit": m.group(2), "text": m.group(3)})
    return findings, fixed


class Ctx:
    def __init__(self, prop, tier, facts=None):
        self.prop = prop
        self.tier = tier
        self.t0 = time.time()
        self.facts = facts if facts is not None else Facts(tier)
        self.obligations = []      # (rule, instance, ok, detail, where)
        self.violations = []       # dicts
        self.rule_counts = {}
        self.rule_docs = {}
        self.samples = []
        self.notes = []
        self.exhaustive = {}
        self.functions_touched = set()
        self.broken = []
        self.only = None  # tuple of rule id prefixes this property includes (None = all)

    def _on(self, rid):
        if any(rid == p or rid.startswith(p) for p in getattr(self, "only_skip", ())):
            return False
        if rid.startswith("STATE."):
            return True    # hidden shared state is a necessary condition of every property (rules/statics.py)
        return self.only is None or any(rid == p or rid.startswith(p) for p in self.only)

    # ---- bookkeeping
    def rule(self, rid, doc):
        if not self._on(rid):
            return
        self.rule_docs[rid] = doc
        self.rule_counts.setdefault(rid, {"instances": 0, "nontrivial": 0, "violations": 0})

    def ok(self, rid, instance, detail="", where="", nontrivial=True, fn=None):
        if not self._on(rid):
            return
        c = self.rule_counts.setdefault(rid, {"instances": 0, "nontrivial": 0, "violations": 0})
        c["instances"] += 1
        if nontrivial:
            c["nontrivial"] += 1
        self.obligations.append((rid, instance, True, detail, where, nontrivial))
        if fn is not None:
            self.functions_touched.add(fn.pat)

    def bad(self, rid, instance, msg, where="", path=None, fn=None):
        if not self._on(rid):
            return
        c = self.rule_counts.setdefault(rid, {"instances": 0, "nontrivial": 0, "violations": 0})
        c["instances"] += 1
        c["nontrivial"] += 1
        c["violations"] += 1
        self.obligations.append((rid, instance, False, msg, where, True))
        self.violations.append({"rule": rid, "instance": instance, "message": msg, "where": where, "path": path or []})
        if fn is not None:
            self.functions_touched.add(fn.pat)

    def check(self, cond, rid, instance, okdetail, badmsg, where="", fn=None, path=None):
        if cond:
            self.ok(rid, instance, okdetail, where, fn=fn)
        else:
            self.bad(rid, instance, badmsg, where, path=path, fn=fn)
        return cond

    def floor(self, rid, minimum):
        """a rule that matches fewer instances than confirmed by hand is analysis-broken, not a pass"""
        if not self._on(rid):
            return
        n = self.rule_counts.get(rid, {"instances": 0})["instances"]
        if n < minimum:
            self.broken.append("rule %s matched %d instances, floor is %d (anchors vanished?)" % (rid, n, minimum))

    def note(self, s):
        self.notes.append(s)

    # ---- finish
    def finish(self, explanation, assumptions=(), not_decided=""):
        findings, fixed = load_known()
        mine = [f for f in findings if f["property"] == self.prop]
        exit_code = 0
        lines = []
        os.makedirs(os.path.join(VERIF, "evidence", "replay"), exist_ok=True)
        unlisted = 0
        seen_known = set()
        reported = set()
        for i, v in enumerate(self.violations):
            if (v["rule"], v["instance"]) in reported:
                continue  # same instance in another template shape / build variant
            reported.add((v["rule"], v["instance"]))
            match = None
            for f in mine:
                if f["rule"] == v["rule"] and f["instance"] == v["instance"]:
                    match = f
                    break
            if match:
                key = (match["rule"], match["instance"])
                if key not in seen_known:
                    seen_known.add(key)
                    lines.append("KNOWN-FINDING: property=%s rule=%s instance=%s %s [%s]" % (self.prop, v["rule"], v["instance"], match["text"], v["where"]))
                continue
            unlisted += 1
            rp = os.path.join(VERIF, "evidence", "replay", "%s-%s-%d.json" % (self.prop, re.sub(r"[^A-Za-z0-9_.]", "_", v["rule"]), i))
            if "--no-evidence" in sys.argv:
                rp = os.path.join(os.environ.get("TMPDIR", "/tmp"), os.path.basename(rp))
            with open(rp, "w") as fh:
                json.dump({"property": self.prop, "rule": v["rule"], "rule_doc": self.rule_docs.get(v["rule"], ""), "instance": v["instance"],
                           "message": v["message"], "where": v["where"], "path": v["path"], "repo": REPO, "facts_key": self.facts.key}, fh, indent=1)
            lines.append("VIOLATION property=%s replay=%s" % (self.prop, rp))
            lines.append("  rule=%s instance=%s at %s: %s" % (v["rule"], v["instance"], v["where"], v["message"]))
            exit_code = 1
        n_ob = len(self.obligations)
        n_ok = sum(1 for o in self.obligations if o[2])
        distinct = len({(o[0], o[1]) for o in self.obligations if o[5]})
        # samples: a few obligations per rule, written out
        samples = []
        per_rule = {}
        for o in self.obligations:
            per_rule.setdefault(o[0], [])
            if len(per_rule[o[0]]) < 3:
                per_rule[o[0]].append(o)
        for rid, obs in per_rule.items():
            for o in obs:
                samples.append({"rule": rid, "instance": o[1], "holds": o[2], "detail": o[3], "where": o[4]})
        st = self.facts.stats()
        ev = {
            "property_id": self.prop,
            "tier": self.tier,
            "seed": int(os.environ.get("VERIF_SEED", "0") or 0),
            "level": "other",
            "coverage": {
                "explanation": explanation,
                "not_decided": not_decided,
                "obligations": n_ob,
                "discharged": n_ok,
                "evaluations": n_ob,
                "distinct_nontrivial": distinct,
                "rule": "one evaluation = one (rule, function pattern, site) instance evaluated on the facts extracted from the current "
                        "/repo tree; distinct_nontrivial counts distinct (rule, instance) pairs whose deciding branch was exercised "
                        "(the anchor was found and the structural condition was actually evaluated)",
                "rules": {rid: dict(doc=self.rule_docs.get(rid, ""), **c) for rid, c in self.rule_counts.items()},
                "samples": samples[:60],
                "analysed": dict(st, functions_in_rules=len(self.functions_touched)),
                "translation_units": sorted({t["tu"] for t in self.facts.tus}),
                "build_variants": sorted({t["variant"] for t in self.facts.tus}),
                "known_findings_reported": len(seen_known),
                "notes": self.notes,
                "checker_selftest": getattr(self, "sentinels", None),
                "exhaustive": bool(self.exhaustive) and all(self.exhaustive.values()),
            },
            "assumptions": list(assumptions),
            "wall_s": round(time.time() - self.t0, 3),
            "violations": unlisted,
        }
        if "--no-evidence" not in sys.argv:
            with open(os.path.join(VERIF, "evidence", self.prop + ".json"), "w") as fh:
                json.dump(ev, fh, indent=1)
        for l in lines:
            print(l)
        if exit_code == 0 and self.broken:
            for b in self.broken[:10]:
                print("ANALYSIS-BROKEN: %s" % b)
            exit_code = 2
        print("%s tier=%s: %d obligations over %d rules, %d hold, %d unlisted violations, %d known findings; facts %s (%d shapes / %d instantiations / %d TUs)" % (
            self.prop, self.tier, n_ob, len(self.rule_counts), n_ok, unlisted, len(seen_known), self.facts.key, st["function_shapes"],
            st["function_instantiations"], st["translation_units"]))
        return exit_code
