"""Rules about the client side of the reclamation protocol (containers) and the reclaimers' own reclamation points."""
import re

from ..facts import AnalysisBroken
from . import flow

GUARD_RECLAIM_RE = re.compile(r"^xenium::reclamation::[a-z_]+::guard_ptr::reclaim$")

# functions that merely forward "reclaim what this accessor/guard refers to": their *callers* carry the obligation
RECLAIM_WRAPPERS = {
    "xenium::impl::vyukov_hash_map_traits::reclaim": "traits: reclaims the node(s) an accessor refers to",
    "xenium::impl::vyukov_hash_map_traits::reclaim_internal": "traits: reclaims the internal node an accessor refers to",
    "xenium::impl::vyukov_hash_map_traits::accessor::reclaim": "accessor::reclaim() is the documented public API with which the *user* "
                                                              "retires an extracted value",
}
# calls whose true result means "this thread removed the element from the shared structure"
EXTRACTORS = ("xenium::vyukov_hash_map::do_extract",)
# reclaim sites licensed by something other than a CAS / extractor result: (pattern) -> (reason, matcher of the event that must dominate)
LOCK_LICENSED = {
    "xenium::vyukov_hash_map::do_grow": ("the old block is replaced under resize_lock with all buckets locked; the release-store that "
                                         "publishes the new block must precede the reclaim",
                                         {"k": "call", "field": "data_block", "op": "store"}),
}


def is_cas_atom(fn, nid):
    a = fn.atomic(nid)
    return bool(a and a["kind"] == "cas")


def is_license_atom(fn, nid):
    if is_cas_atom(fn, nid):
        return True
    n = fn.nodes[nid]
    return n["k"] == "call" and n.get("callee") in EXTRACTORS


def reclaim_after_unlink(ctx, file_suffixes, rid="K4.reclaim-after-unlink"):
    """C01.f: in client containers every guard_ptr::reclaim() (and every call of a reclaim wrapper) is control dependent on the
    success edge of the CAS (or the true result of the extraction) that unlinked the node."""
    ctx.rule(rid, "every guard_ptr::reclaim() in a container is reached only through the success edge of a CAS / the true result "
                  "of the extraction that made the node unreachable (retire once, after unlinking)")
    facts = ctx.facts
    n_sites = 0
    for fn in facts.fns:
        if "/reclamation/" in fn.file or fn.inlined_helper:
            continue
        if not any(s in fn.file for s in file_suffixes):
            continue
        for b, i, e, n in fn.events():
            if n["k"] != "call":
                continue
            callee = n.get("callee", "")
            if not (GUARD_RECLAIM_RE.match(callee) or callee in RECLAIM_WRAPPERS):
                continue
            inst = "%s#%s" % (fn.pat, fn.expr(e).split("(")[0])
            where = fn.where(e)
            if fn.pat in RECLAIM_WRAPPERS:
                ctx.ok(rid, inst, "forwarding wrapper (%s); obligation carried by its callers" % RECLAIM_WRAPPERS[fn.pat], where, nontrivial=False, fn=fn)
                continue
            n_sites += 1
            if fn.pat in LOCK_LICENSED:
                reason, m = LOCK_LICENSED[fn.pat]
                pubs = flow.find(fn, m)
                if not pubs:
                    ctx.bad(rid, inst, "reclaim is licensed by '%s' but no such event exists in %s" % (reason, fn.pat), where, fn=fn)
                else:
                    ctx.check(any(fn.before(p, e) for p in pubs), rid, inst,
                              "dominated by the publication %s (%s)" % (fn.expr(pubs[0]), reason),
                              "reclaim of the old block is not dominated by the store that publishes its replacement", where, fn=fn)
                continue
            ok, path, natoms = flow.only_via(fn, e, is_license_atom, True)
            if ok and natoms > 0:
                ctx.ok(rid, inst, "only reachable through the success edge of %d licensing condition(s)" % natoms, where, fn=fn)
            else:
                ctx.bad(rid, inst,
                        "%s is reachable without passing the success edge of an unlinking CAS / extraction (%s)" % (
                            fn.expr(e), "no licensing condition in this function" if natoms == 0 else "path avoids it"),
                        where, path=flow.describe_path(fn, path), fn=fn)
    return n_sites
