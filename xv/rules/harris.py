"""Harris-Michael list based set / hash map rules (C08, C09) and the generic use-after-move rule."""
import itertools
import re

from . import flow
from .flow import chain, guarded, present
from .evalx import evalx, eval_pure, Unknown
from .schemes import call

M = "xenium::harris_michael_hash_map::"
S = "xenium::harris_michael_list_based_set::"


# ---------------------------------------------------------------------------------------------------------------
def ordering_predicates(ctx):
    rid = "K6.order-predicate"
    ctx.rule(rid, "the predicate that decides where a list search stops is evaluated over all order relations of (hash, key) for three keys and "
                  "every hash function on them: it must be a total preorder whose symmetric part is key equality (exhaustive finite evaluation "
                  "of the predicate's expression tree)")
    keys = [0, 1, 2] if ctx.tier != "thorough" else [0, 1, 2, 3]
    for pat in (M + "data_with_hash::greater_or_equal", M + "data_without_hash::greater_or_equal"):
        for fn in flow._shapes(ctx, pat):
            rets = flow.find(fn, {"k": "return"})
            if not rets or not all(fn.kids(r) for r in rets):
                ctx.broken.append("%s: predicate does not return a value" % pat)
                continue
            ex = fn.kids(rets[0])[0]
            cmpops = {"call:operator>=": lambda a, b: int(a >= b), "call:operator>": lambda a, b: int(a > b), "call:operator<": lambda a, b: int(a < b),
                      "call:operator<=": lambda a, b: int(a <= b), "call:operator==": lambda a, b: int(a == b), "call:operator!=": lambda a, b: int(a != b)}
            viol = None
            n_eval = 0
            try:
                for f in itertools.product(keys, repeat=len(keys)):   # hash function key -> hash
                    def P(x, y):
                        env = {"hash": f[x], "this.hash": f[x], "first": x, "this.first": x, "h": f[y], "key": y}
                        env.update(cmpops)
                        # the whole (loop-free, call-free) predicate is evaluated along its single feasible path, whatever its statement structure
                        return bool(eval_pure(fn, env))
                    for x in keys:
                        n_eval += 1
                        if not P(x, x):
                            viol = ("not reflexive", f, x, x)
                        for y in keys:
                            n_eval += 1
                            if not (P(x, y) or P(y, x)):
                                viol = ("not total: neither node(%d,hash %d) >= probe(%d,hash %d) nor the converse" % (x, f[x], y, f[y]), f, x, y)
                            if P(x, y) and P(y, x) and x != y:
                                viol = ("two different keys are mutually >=", f, x, y)
                            for z in keys:
                                if P(x, y) and P(y, z) and not P(x, z):
                                    viol = ("not transitive", f, x, z)
                    if viol:
                        break
            except Unknown as e:
                ctx.broken.append("%s: predicate expression not evaluable (%s)" % (pat, e))
                continue
            ctx.exhaustive[rid] = True
            ctx.check(viol is None, rid, pat + "#total-preorder", "total, reflexive, transitive, antisymmetric on keys over %d evaluations" % n_eval,
                      "%s is not a total order compatible with key equality: %s (hash function %s). An iterator that re-scans for the successor of an "
                      "erased element skips elements that stayed in the map" % (" / ".join(fn.expr(fn.kids(r)[0]) for r in rets), viol[0] if viol else "", viol[1] if viol else ""), fn.where(), fn=fn)
    # set: stop = !compare(ckey, key); found = !compare(key, ckey)
    for fn in flow._shapes(ctx, S + "find"):
        if len(fn.params) < 2:
            continue
        def is_cmp_call(nid):
            n_ = fn.nodes[nid]
            return n_["k"] == "call" and n_.get("callee", "").endswith("operator()") and len(fn.kids(nid)) == 3 and "bool" == n_.get("t")
        conds = []
        for b, blk in fn.blocks.items():
            if "cond" in blk and b in fn.live_blocks():
                a_, p_ = flow.strip_cond(fn, blk["cond"])
                if a_ is not None and a_ >= 0 and is_cmp_call(a_):
                    conds.append(blk["cond"])
        rets = []
        for r in flow.find(fn, {"k": "return"}):
            if fn.kids(r):
                a_, p_ = flow.strip_cond(fn, fn.kids(r)[0])
                if a_ is not None and a_ >= 0 and is_cmp_call(a_):
                    rets.append(r)
        # the set is ordered AND de-duplicated by the configured comparator alone: a key comparison with ==/!= anywhere in the search decides
        # "same element" differently from the comparator (distinct keys that are equivalent under it would both be inserted)
        eqs = [e for e, n_ in enumerate(fn.nodes) if flow.eq_cmp(fn, e) and e in fn.pos() and fn.pos()[e][0] in fn.live_blocks() and
               any(flow.has_src(fn, x, "field:key") for x in flow.eq_cmp(fn, e)[1:]) and any(flow.has_src(fn, x, "param#0") for x in flow.eq_cmp(fn, e)[1:])]
        ctx.check(not eqs, rid, S + "find#comparator-only", "keys are compared through the configured comparator only",
                  "the list search compares keys with %s instead of the configured comparator: two keys that are equivalent under policy::compare but not == are treated as "
                  "different elements (uniqueness lost; contains/erase miss the stored equivalent key)" % (fn.expr(eqs[0]) if eqs else ""), fn.where(eqs[0]) if eqs else fn.where(), fn=fn)
        if eqs:
            continue
        if not conds or not rets:
            ctx.broken.append("harris_michael_list_based_set::find: compare idiom not found")
            continue

        def roles(call_nid):
            k_ = fn.kids(call_nid)
            names = []
            for x in k_[1:3]:
                xn = fn.nodes[x]
                names.append((xn.get("name"), "node" if (flow.has_src(fn, x, "field:value") or flow.has_src(fn, x, "field:key")) else "probe"))
            return names
        bad = None
        try:
            for ck in (0, 1, 2):
                for k in (0, 1, 2):
                    atom, pol = flow.strip_cond(fn, conds[0])
                    env = {"call:operator()": lambda a, b: int(a < b)}
                    for nm, role in roles(atom):
                        env[nm] = ck if role == "node" else k
                    stop = bool(evalx(fn, atom, env)) == pol
                    if stop != (ck >= k):
                        bad = "search stops at node %d for key %d: %s" % (ck, k, stop)
                    if stop:
                        ratom, rpol = flow.strip_cond(fn, fn.kids(rets[0])[0])
                        env2 = {"call:operator()": lambda a, b: int(a < b)}
                        for nm, role in roles(ratom):
                            env2[nm] = ck if role == "node" else k
                        found = bool(evalx(fn, ratom, env2)) == rpol
                        if found != (ck == k):
                            bad = "node %d reported as %s for key %d" % (ck, "match" if found else "no match", k)
        except Unknown as e:
            ctx.broken.append("set find: compare expression not evaluable (%s)" % e)
            continue
        ctx.check(bad is None, rid, S + "find#stop-and-match", "stops at the first node >= key, match iff equivalent",
                  "list search with std::less: %s" % bad, fn.where(conds[0]), fn=fn)


# ---------------------------------------------------------------------------------------------------------------
def _is_mark_cas(fn, nid):
    a = fn.atomic(nid)
    if not a or a["kind"] != "cas" or not a["field"].endswith("node::next"):
        return False
    kids = fn.kids(nid)
    if len(kids) < 3:
        return False
    d = fn.nodes[kids[2]]
    dk = fn.kids(kids[2])
    return d["k"] == "construct" and d.get("callee", "").endswith("marked_ptr::marked_ptr") and len(dk) == 2 and fn.nodes[dk[1]].get("v") == 1


def _is_unlink_cas(fn, nid):
    a = fn.atomic(nid)
    return bool(a and a["kind"] == "cas" and (a["field"].endswith("find_info::prev") or a["field"].endswith("info.prev") or "prev" in a["field"]) and not _is_mark_cas(fn, nid))


def erase_protocol(ctx):
    rid = "HM.erase"
    ctx.rule(rid, "erase: logical deletion (mark CAS on cur->next whose expected value is known unmarked in every attempt: fresh from find() or "
                  "tested mark()==0) precedes the unlink CAS on prev; success is reported only by the thread whose mark CAS succeeded; a failed "
                  "unlink is followed by find() which helps unlinking")
    for C in (M, S):
        for fn in flow._shapes(ctx, C + "erase"):
            is_iter = any(p["name"] == "pos" for p in fn.params)
            which = "erase(iterator)" if is_iter else "erase(key)"
            marks = [e for b, i, e, n in fn.events() if _is_mark_cas(fn, e)]
            unlinks = [e for b, i, e, n in fn.events() if _is_unlink_cas(fn, e)]
            inst = C + which
            if not marks or not unlinks:
                ctx.bad(rid, inst + "#mark-then-unlink", "%s must mark cur->next (found %d) and then unlink through prev (found %d)" % (which, len(marks), len(unlinks)), fn.where(), fn=fn)
                continue
            # every attempt of the mark CAS is licensed by a fresh find() (true) or by a test that the expected value is unmarked
            lic = lambda f, nid: (f.nodes[nid]["k"] == "call" and f.nodes[nid].get("callee", "").endswith("::find")) or (
                f.nodes[nid]["k"] == "bin" and f.nodes[nid]["op"] in ("==", "!=") and ".mark()" in f.expr(nid))
            for mk in marks:
                ok, path, n = flow.only_via(fn, mk, lic, True)
                ctx.check(ok and n > 0, rid, inst + "#mark-cas-expected-unmarked", "each mark-CAS attempt follows a find()/mark()==0 test",
                          "the mark CAS can be retried with an expected value that was refreshed by the failed CAS itself (possibly already marked "
                          "by a racing erase): CAS(marked -> marked) succeeds and two erases of one key both report success",
                          fn.where(mk), fn=fn, path=flow.describe_path(fn, path))
            ok = all(any(fn.before(mk, u) or fn.event_reaches(mk, u) for mk in marks) and not any(fn.event_reaches(u, mk) for mk in marks) for u in unlinks)
            ctx.check(ok, rid, inst + "#mark<unlink", "mark CAS precedes the unlink CAS", "the node is unlinked before (or without) being marked", fn.where(unlinks[0]), fn=fn)
            # failure edge of the unlink is followed by find()
            finds = flow.find(fn, {"k": "call", "callee_re": r"::find$"})
            for u in unlinks:
                edges = flow.cond_edges(fn, lambda f, nid: nid == u)
                okf = False
                for b, atom, t, f_ in edges:
                    if f_ is None:
                        continue
                    # from the failure successor every path to the exit passes a find()
                    okf = _all_paths_pass(fn, f_, finds)
                ctx.check(okf and bool(edges), rid, inst + "#unlink-failure->find", "failed unlink is followed by find()",
                          "after a failed unlink CAS the marked node is not helped out of the list (no find() on that path): it can stay linked and is never reclaimed",
                          fn.where(u), fn=fn)
            if not is_iter:
                # 'return true' only after a successful mark CAS; 'return false' only via !find
                rets = [r for r in flow.find(fn, {"k": "return"}) if fn.kids(r) and fn.nodes[fn.kids(r)[0]].get("v") == 1]
                for r in rets:
                    ok, path, n = flow.only_via(fn, r, _is_mark_cas, True)
                    ctx.check(ok and n > 0, rid, inst + "#true|mark-cas", "'return true' only after this thread's mark CAS succeeded",
                              "erase reports success without having won the mark CAS", fn.where(r), fn=fn)
                retf = [r for r in flow.find(fn, {"k": "return"}) if fn.kids(r) and fn.nodes[fn.kids(r)[0]].get("v") == 0]
                for r in retf:
                    ok, path, n = flow.only_via(fn, r, lambda f, nid: f.nodes[nid]["k"] == "call" and f.nodes[nid].get("callee", "").endswith("::find"), False)
                    ctx.check(ok and n > 0, rid, inst + "#false|not-found", "'return false' only when find() did not find the key",
                              "erase reports failure although the key may be present", fn.where(r), fn=fn)
            else:
                # erase(iterator): successor is guarded before the unlink
                gs = [e for e in flow.find(fn, {"k": "decl"}) if any("guard_ptr" in v.get("t", "") and "init" in v and flow.has_src(fn, v["init"], "load:next") for v in fn.nodes[e]["vars"])]
                ok = bool(gs) and all(any(fn.before(g, u) for g in gs) for u in unlinks)
                ctx.check(ok, rid, inst + "#guard-successor<unlink", "successor guarded before the unlink CAS",
                          "erase(iterator) must take a guard on the successor before unlinking the current node", fn.where(unlinks[0]), fn=fn)


def _all_paths_pass(fn, start_block, events):
    pos = fn.pos()
    blocked = {pos[e][0] for e in events if e in pos}
    if start_block in blocked:
        return True
    seen = {start_block}
    st = [start_block]
    while st:
        x = st.pop()
        if x == fn.exit:
            return False
        for s in fn.blocks[x]["succ"]:
            if s is None or s in seen or s in blocked:
                continue
            seen.add(s)
            st.append(s)
    return True


def insert_protocol(ctx):
    rid = "HM.insert"
    ctx.rule(rid, "insert: the new node's next is set to the expected successor before the release-CAS on prev with that same expected value; a node "
                  "that lost against an existing key is deleted and never linked; the bucket is map_to_bucket(hash(key)) in every operation; "
                  "the key searched for is the key being inserted")
    pats = [M + "emplace", M + "emplace_or_get", M + "do_get_or_emplace_lazy", S + "emplace", S + "emplace_or_get"]
    for pat in pats:
        for fn in flow._shapes(ctx, pat):
            cas = [e for b, i, e, n in fn.events() if _is_unlink_cas(fn, e)]
            stores = [e for e in flow.find(fn, {"k": "call", "field": "node::next", "op": "store"})]
            finds = flow.find(fn, {"k": "call", "callee_re": r"::find$"})
            if not cas:
                if flow.find(fn, {"k": "call", "callee_re": r"emplace_or_get$|do_get_or_emplace_lazy$"}):
                    ctx.ok(rid, pat + "#delegates", "delegates to another insert operation", fn.where(), nontrivial=False, fn=fn)
                    continue
                ctx.bad(rid, pat + "#link-cas", "no CAS on prev that links the new node", fn.where(), fn=fn)
                continue
            ok = bool(stores) and all(any(fn.before(s, c) for s in stores) for c in cas)
            ctx.check(ok, rid, pat + "#next-set<link", "n->next is set before the linking CAS", "the new node is linked before its next pointer is set", fn.where(cas[0]), fn=fn)
            # same expected value: the variable stored into n->next is the CAS's expected argument
            for c in cas:
                exp = fn.expr(fn.kids(c)[1])
                ok2 = any(fn.expr(fn.kids(s)[1]).find(exp) >= 0 or exp.find(fn.expr(fn.kids(s)[1]).strip("()")) >= 0 for s in stores)
                ctx.check(ok2, rid, pat + "#next==expected", "n->next holds the value expected by the linking CAS (%s)" % exp,
                          "the new node's next pointer (%s) is not the value the linking CAS expects (%s): the list loses its tail or links a stale successor" % (
                              ", ".join(fn.expr(fn.kids(s)[1]) for s in stores), exp), fn.where(c), fn=fn)
                # the link attempt is licensed by find() == false in every iteration
                ok3, path, n = flow.only_via(fn, c, lambda f, nid: f.nodes[nid]["k"] == "call" and f.nodes[nid].get("callee", "").endswith("::find"), False)
                ctx.check(ok3 and n > 0, rid, pat + "#link|not-found", "every link attempt follows a find() that did not find the key",
                          "the node is linked without a preceding unsuccessful find() for its key (duplicates / wrong position)", fn.where(c), fn=fn)
            # delete n on the found path only
            dels = flow.find(fn, {"k": "delete"})
            for d in dels:
                ok4, path, n = flow.only_via(fn, d, lambda f, nid: f.nodes[nid]["k"] == "call" and f.nodes[nid].get("callee", "").endswith("::find"), True)
                ctx.check(ok4 and n > 0 and not any(fn.event_reaches(d, c) for c in cas), rid, pat + "#delete|found", "speculative node deleted only when the key exists, never linked afterwards",
                          "the speculative node is deleted on a path where it may (still) be linked", fn.where(d), fn=fn)
            # the key passed to find is the key of the node being inserted
            for f_ in finds:
                kexpr = fn.expr(fn.kids(f_)[2]) if len(fn.kids(f_)) > 2 else ""
                good = True
                why = ""
                kn = fn.kids(f_)[2] if len(fn.kids(f_)) > 2 else None
                if kn is not None:
                    good, why = _key_is_live(fn, kn, f_)
                ctx.check(good, rid, pat + "#find-key-is-inserted-key", "find() is called with the key of the element being inserted (%s)" % kexpr,
                          "find() is called with %s, which %s" % (kexpr, why), fn.where(f_), fn=fn)
    # bucket selection agreement
    rid2 = "HM.bucket"
    ctx.rule(rid2, "all operations of the hash map select the bucket as map_to_bucket{}(hash(key), num_buckets)")
    for pat in (M + "emplace_or_get", M + "do_get_or_emplace_lazy", M + "erase", M + "find", M + "contains"):
        for fn in flow._shapes(ctx, pat):
            if pat.endswith("::find") and len(fn.params) != 1:
                continue
            if pat.endswith("::erase") and any(p["name"] == "pos" for p in fn.params):
                continue
            # the call map_to_bucket{}(h, num_buckets): a binary functor call whose second argument is the static member num_buckets
            sel = [e for b_, i_, e, n_ in fn.events() if n_["k"] == "call" and n_.get("callee", "").endswith("operator()") and len(fn.kids(e)) == 3
                   and fn.nodes[fn.kids(e)[2]].get("name", "").endswith("num_buckets")]
            decls = sel
            hd = sel
            ok = bool(sel) and all(flow.has_src(fn, fn.kids(e)[1], "param#0") or flow.has_src(fn, fn.kids(e)[1], "call:get_hash") for e in sel)
            ctx.check(ok, rid2, pat + "#bucket=map_to_bucket(hash(key))", "bucket = map_to_bucket{}(hash(key), num_buckets)",
                      "bucket selection differs from the other operations: %s" % "; ".join(fn.expr(d) for d in decls), fn.where(), fn=fn)


def _strip(fn, nid):
    for _ in range(6):
        n = fn.nodes[nid]
        if n["k"] == "cast" and fn.kids(nid):
            nid = fn.kids(nid)[0]
            continue
        if n["k"] == "call" and n.get("callee") == "std::move" and fn.kids(nid):
            nid = fn.kids(nid)[0]
            continue
        if n["k"] == "construct" and len(fn.kids(nid)) == 1:
            nid = fn.kids(nid)[0]
            continue
        break
    return nid


def iterator_bucket_agreement(ctx):
    """an iterator built from a search result records the bucket index the search position (find_info) belongs to"""
    rid2 = "HM.bucket"
    n_sites = 0
    for fn in ctx.facts.fns:
        if not fn.pat.startswith(M) or fn.inlined_helper:
            continue
        for b_, i_, e, n_ in fn.events():
            if n_["k"] != "construct" or not n_.get("callee", "").endswith("iterator::iterator") or len(fn.kids(e)) != 3:
                continue
            k = fn.kids(e)
            info = _strip(fn, k[2])
            if fn.nodes[info]["k"] != "ref" or fn.nodes[info].get("dk") != "local":
                continue
            d = flow.unique_def(fn, fn.nodes[info]["name"])
            if d is None:
                continue
            # find_info{&buckets[IDX], ...}: the index expression of the bucket head the search starts from
            idx = [x for x in fn.subtree(d) if (fn.nodes[x]["k"] == "index" or (fn.nodes[x]["k"] == "call" and fn.nodes[x].get("callee", "").endswith("operator[]"))) and
                   fn.field_of(fn.kids(x)[0]).endswith("buckets")]
            if not idx:
                continue
            n_sites += 1
            ib = _strip(fn, fn.kids(idx[0])[1])
            bb = _strip(fn, k[1])
            same = fn.expr(ib) == fn.expr(bb) and (fn.nodes[ib]["k"] != "ref" or fn.nodes[ib].get("dk") != "local" or flow.unique_def(fn, fn.nodes[ib]["name"]) is not None)
            ctx.check(same, rid2, fn.pat + "#iterator-bucket=search-bucket", "the iterator records bucket %s, the bucket its position was searched in" % fn.expr(bb),
                      "the iterator is constructed with bucket index %s but its position (find_info) lies in buckets[%s]: when the iterator runs off the end of that list it "
                      "continues from the wrong bucket (elements skipped, or an out-of-bounds bucket access when it re-scans)" % (fn.expr(bb), fn.expr(ib)), fn.where(e), fn=fn)
    if n_sites < 3:
        ctx.broken.append("HM.bucket: only %d iterator-from-search construction sites found" % n_sites)


def _key_is_live(fn, key_nid, use_nid):
    """the key expression handed to find() must not denote an object that may have been moved from on some path to this call"""
    names = [fn.nodes[x]["name"] for x in fn.subtree(key_nid) if fn.nodes[x]["k"] == "ref" and fn.nodes[x].get("dk") in ("param", "local")]
    for nm in names:
        for mv in moved_from_events(fn, nm):
            if fn.event_reaches(mv, use_nid):
                return False, "can be evaluated after std::move(%s) at line %d emptied it (moved-from key)" % (nm, fn.nodes[mv].get("l", 0))
    return True, ""


def moved_from_events(fn, name):
    """events std::move(<name>) whose result is consumed by a call/constructor (i.e. really moved), for class-type variables"""
    out = []
    for b, i, e, n in fn.events():
        if n["k"] == "call" and n.get("callee") == "std::move":
            k = fn.kids(e)
            if k and fn.nodes[k[0]]["k"] == "ref" and fn.nodes[k[0]].get("name") == name:
                t = fn.nodes[k[0]].get("t", "")
                if t.endswith("*") or t in ("int", "unsigned long", "unsigned int", "long", "bool", "char", "short", "unsigned char", "double", "float"):
                    continue
                out.append(e)
    return out


def use_after_move(ctx, file_suffixes, rid="UAM.use-after-move"):
    ctx.rule(rid, "a class-type parameter/local is not read on any path after it was moved from (std::move handed to a call), unless it was "
                  "re-assigned in between; the moving expression itself re-executed in a loop is exempt (guarded by the consumer's own state)")
    for fn in ctx.facts.fns:
        if not any(s in fn.file for s in file_suffixes):
            continue
        if fn.inlined_helper:
            continue
        moves = {}
        for b, i, e, n in fn.events():
            if n["k"] == "call" and n.get("callee") == "std::move":
                k = fn.kids(e)
                if k and fn.nodes[k[0]]["k"] == "ref" and fn.nodes[k[0]].get("dk") in ("param", "local"):
                    t = fn.nodes[k[0]].get("t", "").replace("const ", "")
                    if t.endswith("*") or t.endswith("&") and False:
                        continue
                    if t in ("int", "unsigned long", "unsigned int", "long", "bool", "char", "short", "unsigned char", "double", "float", "unsigned short"):
                        continue
                    if not _consumed(fn, e):
                        continue
                    moves.setdefault(fn.nodes[k[0]]["name"], []).append((e, k[0]))
        for name, mvs in moves.items():
            uses = [e for e, n in enumerate(fn.nodes) if n["k"] == "ref" and n.get("name") == name and n.get("dk") in ("param", "local") and e in fn.pos()]
            move_refs = {r for m, r in mvs}
            kills = _assignments_to(fn, name)
            kill_lhs = {fn.kids(k)[0] for k in kills}
            # a reference argument bound to a parameter of a virtually inlined helper is not a read: the helper's own accesses (renamed onto
            # this variable by the inliner) are what counts
            uses = [u for u in uses if u not in kill_lhs and not fn.nodes[u].get("inl_arg")]
            for m, mref in mvs:
                for u in uses:
                    if u in move_refs or _is_dtor_use(fn, u):
                        continue
                    if _reaches_without(fn, m, u, kills):
                        inst = "%s#%s" % (fn.pat, name)
                        ctx.bad(rid, inst, "'%s' is read at line %d after std::move(%s) at line %d on some path (moved-from object used)" % (
                            name, fn.nodes[u].get("l", 0), name, fn.nodes[m].get("l", 0)), fn.where(u), fn=fn)
                        break
                else:
                    ctx.ok(rid, "%s#%s@L-rel" % (fn.pat, name), "no read of '%s' reachable after the move" % name, fn.where(m), fn=fn)


def _consumed(fn, move_nid):
    """is the object definitely moved from?  std::move(x) is the argument of a move constructor (by-value parameter, local copy, member
    initialiser) or of a move assignment.  Passing std::move(x) to a T&& parameter does not by itself move anything."""
    for e, n in enumerate(fn.nodes):
        if move_nid not in fn.kids(e) or e == move_nid:
            continue
        if n["k"] == "construct" and n.get("move"):
            return True
        if n["k"] == "call" and n.get("callee", "").endswith("operator=") and n.get("member") and fn.kids(e)[-1] == move_nid:
            return True
    return False


def _is_dtor_use(fn, ref_nid):
    """the reference is the object of an explicit destructor call (ending the lifetime of a moved-from object is fine)"""
    for e, n in enumerate(fn.nodes):
        if n["k"] == "call" and ref_nid in fn.kids(e)[:1] and "::~" in n.get("callee", ""):
            return True
        if n["k"] == "member" and ref_nid in fn.kids(e) and n.get("leaf", "").startswith("~"):
            return True
        if n["k"] == "pseudodtor" and ref_nid in fn.kids(e):
            return True
    return False


def _assignments_to(fn, name):
    out = set()
    for b, i, e, n in fn.events():
        if n["k"] == "bin" and n["op"] == "=":
            c = fn.kids(e)
            if c and fn.nodes[c[0]]["k"] == "ref" and fn.nodes[c[0]].get("name") == name:
                out.add(e)
        elif n["k"] == "call" and n.get("callee", "").endswith("operator=") and n.get("member"):
            c = fn.kids(e)
            if c and fn.nodes[c[0]]["k"] == "ref" and fn.nodes[c[0]].get("name") == name:
                out.add(e)
    return out


def _reaches_without(fn, a, b, kills):
    """path from event a to event b not passing any kill event"""
    pos = fn.pos()
    pa, pb = pos.get(a), pos.get(b)
    if pa is None or pb is None:
        return False
    kpos = {}
    for k in kills:
        if k in pos:
            kpos.setdefault(pos[k][0], []).append(pos[k][1])
    # same block after a
    blk = fn.blocks[pa[0]]["elems"]
    if pa[0] == pb[0] and pb[1] > pa[1]:
        if not any(pa[1] < ki < pb[1] for ki in kpos.get(pa[0], [])):
            return True
    if any(ki > pa[1] for ki in kpos.get(pa[0], [])):
        return False
    seen = set()
    st = [s for s in fn.blocks[pa[0]]["succ"] if s is not None]
    while st:
        x = st.pop()
        if x in seen:
            continue
        seen.add(x)
        ks = kpos.get(x, [])
        if x == pb[0]:
            if not any(ki < pb[1] for ki in ks):
                return True
        if ks:
            continue
        st.extend(s for s in fn.blocks[x]["succ"] if s is not None)
    return False


# ---------------------------------------------------------------------------------------------------------------
def iterator_rules(ctx):
    rid = "HM.iterator"
    ctx.rule(rid, "iterators: the successor is obtained with acquire_if_equal (never a raw load + guard construction); on the slow path the key is "
                  "copied before find() replaces the guards; prev always points into a guarded node (save) or a bucket head; move_to_next_bucket "
                  "is reached whenever cur became empty")
    for C in (M, S):
        for fn in flow._shapes(ctx, C + "iterator::operator++"):
            if fn.params:
                continue  # postfix
            aie = flow.find(fn, call("acquire_if_equal"))
            inst = C + "iterator::operator++"
            ctx.check(bool(aie), rid, inst + "#successor-via-acquire_if_equal", "successor guarded with acquire_if_equal",
                      "operator++ does not obtain its successor through guard_ptr::acquire_if_equal (unvalidated pointer dereferenced later)", fn.where(), fn=fn)
            # info.prev = &info.cur->next is paired with save = move(cur) on the same path
            prevs = [e for e in flow.find(fn, {"k": "bin"}) if fn.nodes[e]["op"] == "=" and fn.field_of(fn.kids(e)[0]).endswith("find_info::prev")]
            saves = [e for e in flow.find(fn, {"k": "call", "callee_re": r"guard_ptr::operator=$"}) if fn.field_of(fn.kids(e)[0]).endswith("find_info::save")]
            for p_ in prevs:
                ok = any(fn.before(p_, s_) or fn.before(s_, p_) for s_ in saves)
                ctx.check(ok, rid, inst + "#prev-with-save", "prev = &cur->next is paired with save = move(cur)",
                          "info.prev is pointed into the current node without moving the guard of that node into info.save: prev dangles once cur is reclaimed",
                          fn.where(p_), fn=fn)
            # fast path only when acquire_if_equal succeeded and next was unmarked
            for p_ in prevs:
                ok, path, n = flow.only_via(fn, p_, lambda f, nid: flow.node_matches(f, nid, call("acquire_if_equal")), True)
                ctx.check(ok and n > 0, rid, inst + "#advance|acquired", "position advanced only after acquire_if_equal succeeded",
                          "the iterator advances without a successful acquire_if_equal", fn.where(p_), fn=fn)
            # slow path: key copied (a local of class/value type initialised from cur->...) before find
            finds = flow.find(fn, {"k": "call", "callee_re": r"::find$"})
            # the re-find by the CURRENT key is only correct when the current node is marked (find() then unlinks it and stops at its successor).  If
            # it is entered merely because cur->next changed (a node was inserted behind cur, or cur's successor was unlinked) find() stops at cur
            # itself and the same element is yielded a second time
            marked = flow.negate_want(flow.cmp_want(lambda f, x: flow.has_src(f, x, "call:mark"), flow.const_is(0)))
            for f_ in finds:
                ok, path, n = flow.only_via_want(fn, f_, marked)
                ctx.check(ok and n > 0, rid, inst + "#refind|cur-marked", "the re-find by the current key is entered only when the current node is marked",
                          "operator++ re-finds by the current element's key on a path where the current node is not known to be marked (e.g. acquire_if_equal failed because "
                          "a node was inserted right behind it): find() stops at the current node again and the iterator yields the same key twice although it was never "
                          "removed", fn.where(f_), fn=fn, path=flow.describe_path(fn, path))
            for f_ in finds:
                kn = fn.kids(f_)
                keyargs = [x for x in kn if fn.nodes[x]["k"] == "ref" and fn.nodes[x].get("name") == "key"]
                ok = bool(keyargs) and not fn.nodes[keyargs[0]].get("t", "").endswith("&") if keyargs else False
                # declared as a value copy, not a reference
                # the key argument handed to find(): a local (copy) initialised from the current node's key, not a reference into the node
                keyargs = [x for x in kn[1:] if fn.nodes[x]["k"] == "ref" and fn.nodes[x].get("dk") == "local" and (flow.has_src(fn, x, "field:value") or flow.has_src(fn, x, "field:key"))
                           and not flow.has_src(fn, x, "call:get_hash")]
                is_copy = False
                for x in keyargs:
                    nm = fn.nodes[x]["name"]
                    kd = [v for e in flow.find(fn, {"k": "decl"}) for v in fn.nodes[e]["vars"] if v["name"] == nm]
                    is_copy = bool(kd) and all(not v["t"].endswith("&") for v in kd)
                if not keyargs:
                    # the key is passed as an expression reading the node directly
                    is_copy = False
                ctx.check(is_copy, rid, inst + "#key-copied-before-find", "key is copied into a local before find() replaces the guards",
                          "find() is called with a reference into the node that info.cur guards; find() resets that guard, so the key dangles", fn.where(f_), fn=fn)
            mnb = flow.find(fn, call("move_to_next_bucket"))
            if C == M:
                ctx.check(bool(mnb), rid, inst + "#next-bucket", "move_to_next_bucket called when cur is empty", "operator++ never moves on to the next bucket", fn.where(), fn=fn)
                _normalise_rule(ctx, rid, fn, inst, mnb)
        if C == M:
            for fn in flow._shapes(ctx, C + "iterator::iterator"):
                if len(fn.params) == 2 and flow.find(fn, call("guard_ptr::acquire")):
                    _normalise_rule(ctx, rid, fn, C + "iterator::iterator(map,bucket)", flow.find(fn, call("move_to_next_bucket")))
            for fn in flow._shapes(ctx, C + "erase"):
                if fn.params and "iterator" in fn.params[0].get("t", ""):
                    _normalise_rule(ctx, rid, fn, C + "erase(iterator)", flow.find(fn, call("move_to_next_bucket")))
            for fn in flow._shapes(ctx, C + "iterator::move_to_next_bucket"):
                acq = flow.find(fn, call("guard_ptr::acquire"))
                ctx.check(bool(acq), rid, C + "iterator::move_to_next_bucket#acquire-head", "bucket head acquired through a guard",
                          "move_to_next_bucket must acquire the bucket head through info.cur", fn.where(), fn=fn)
                prevs = [e for e in flow.find(fn, {"k": "bin"}) if fn.nodes[e]["op"] == "=" and fn.field_of(fn.kids(e)[0]).endswith("find_info::prev")]
                ok = bool(prevs) and all(any(fn.before(p_, a) for p_ in prevs) for a in acq)
                ctx.check(ok, rid, C + "iterator::move_to_next_bucket#prev=head<acquire", "prev set to the bucket head before acquiring",
                          "info.prev is not re-pointed to the new bucket head before acquiring from it", fn.where(), fn=fn)
                present(ctx, rid, C + "iterator::move_to_next_bucket", call("guard_ptr::reset"), label="save-reset")


def _normalise_rule(ctx, rid, fn, inst, mnb):
    """after anything that may leave the cursor guard `cur` empty (a guard taken over from acquire_if_equal, an acquire from a bucket head, the
    re-find of the slow path) every path to the exit either calls move_to_next_bucket or has seen `cur` non-empty - otherwise the iterator
    compares equal to end() although later buckets still hold elements"""
    cur_is = lambda f, x: flow.has_src(f, x, "field:cur")
    nonempty, _n = flow.licensed_edges(fn, flow.negate_want(flow.null_want(cur_is)))
    blocked = {fn.pos()[x][0] for x in mnb if x in fn.pos()}
    mods = []
    for e in flow.find(fn, {"k": "call"}):
        cal = fn.nodes[e].get("callee", "")
        k = fn.kids(e)
        if not k:
            continue
        if (cal.endswith("operator=") or cal.endswith("guard_ptr::acquire")) and fn.field_of(k[0]).endswith("find_info::cur"):
            mods.append(e)
        elif cal.endswith("::find") and any(fn.field_of(x).endswith("::info") for x in k):
            mods.append(e)
    if not mods:
        ctx.broken.append("%s: no event that replaces the cursor guard found" % inst)
    for m_ in mods:
        mb = fn.pos()[m_][0]
        leak = None
        if not any(fn.pos()[x][0] == mb and fn.pos()[x][1] > fn.pos()[m_][1] for x in mnb if x in fn.pos()):
            for s_ in fn.blocks[mb]["succ"]:
                if s_ is None or (mb, s_) in nonempty:
                    continue
                pth = flow._path(fn, s_, fn.exit, nonempty, blocked)
                if pth is not None:
                    leak = [mb] + pth
                    break
        ctx.check(leak is None, rid, inst + "#normalise-empty-cur", "after %s every path to the exit tests the cursor and moves on to the next bucket when it is empty" % fn.expr(m_)[:50],
                  "after %s (line %d) the iterator can be returned with an empty cursor without move_to_next_bucket(): it then compares equal to end() and the "
                  "elements of all following buckets are skipped" % (fn.expr(m_)[:60], fn.nodes[m_].get("l", 0)), fn.where(m_), fn=fn, path=flow.describe_path(fn, leak or []))


def find_protocol(ctx):
    rid = "HM.find"
    ctx.rule(rid, "find(): hand-over-hand traversal; cur is obtained with acquire_if_equal against the value read from prev; a marked node is "
                  "spliced out with a CAS on prev and reclaimed only on success; before a key is compared prev is re-validated to still point to cur")
    for C in (M, S):
        for fn in flow._shapes(ctx, C + "find"):
            if len(fn.params) < 3 and C == M:
                continue
            if C == S and len(fn.params) < 2:
                continue
            inst = C + "find"
            aie = flow.find(fn, call("acquire_if_equal"))
            ctx.check(bool(aie), rid, inst + "#acquire_if_equal", "cur acquired with acquire_if_equal", "find() does not use acquire_if_equal for the current node", fn.where(), fn=fn)
            # comparison of the key (greater_or_equal / compare) only after re-validating prev == cur
            cmps = flow.find(fn, {"k": "call", "callee_re": r"greater_or_equal$"}) or [e for e in flow.find(fn, {"k": "call"}) if fn.nodes[e].get("callee", "").endswith("operator()") and len(fn.kids(e)) == 3 and fn.nodes[e].get("t") == "bool"]
            reval = lambda f, nid: f.nodes[nid]["k"] in ("bin", "call") and ("!=" in f.expr(nid) or "==" in f.expr(nid)) and "prev" in f.expr(nid) and "cur" in f.expr(nid)
            for c in cmps[:1]:
                ok, path, n = flow.only_via(fn, c, reval, False)
                ctx.check(ok and n > 0, rid, inst + "#revalidate-prev-before-compare", "key compared only after prev was re-validated to point to cur",
                          "the key of cur is compared although cur may already have been cut out of the list (prev not re-validated)", fn.where(c), fn=fn)
            # restart from head when the start node is marked
            marks = [b for b, blk in fn.blocks.items() if "cond" in blk and ".mark()" in fn.expr(blk["cond"])]
            ctx.check(len(marks) >= 2, rid, inst + "#mark-tests", "%d mark tests (start node, current node)" % len(marks),
                      "find() must test the delete mark of its start node and of every visited node", fn.where(), fn=fn)


# ---------------------------------------------------------------------------------------------------------------
def guard_deref_after_release(ctx, file_suffixes, rid="GUARD.deref-after-release"):
    """typestate of guards held by container code (not the guard implementation itself): released -> no dereference"""
    ctx.rule(rid, "in container code, a guard_ptr (local, parameter or plain member of one: 'info.cur') is not dereferenced (operator->, operator*) "
                  "on any path after it gave up its protection (reset(), reclaim(), failed acquire_if_equal, moved from) unless it was "
                  "re-acquired / re-assigned in between: the node may be freed as soon as the protection is gone")
    from .progress import _lname
    n_inst = 0
    for fn in ctx.facts.fns:
        if not any(s in fn.file for s in file_suffixes) or "/reclamation/" in fn.file:
            continue
        if fn.inlined_helper:
            continue
        rel = {}    # storage name -> release events
        deref = {}  # storage name -> deref events
        kills = {}  # storage name -> (re)acquiring events
        for b, i, e, n in fn.events():
            k = fn.kids(e)
            if n["k"] == "call" and n.get("member") and k:
                nm = _lname(fn, k[0])
                t = fn.nodes[k[0]].get("t", "")
                if not nm or "guard_ptr" not in t:
                    continue
                leaf = n.get("callee", "?").split("::")[-1]
                if leaf in ("reset", "reclaim"):
                    rel.setdefault(nm, []).append(e)
                elif leaf in ("operator->", "operator*"):
                    deref.setdefault(nm, []).append(e)
                elif leaf in ("acquire", "acquire_if_equal", "operator=", "swap"):
                    kills.setdefault(nm, []).append(e)
            elif n["k"] == "call" and n.get("callee") == "std::move" and k:
                nm = _lname(fn, k[0])
                if nm and "guard_ptr" in fn.nodes[k[0]].get("t", "") and _consumed(fn, e):
                    rel.setdefault(nm, []).append(e)
            elif n["k"] == "call" and n.get("callee", "").endswith("::swap") and not n.get("member"):
                for a_ in k:
                    nm = _lname(fn, a_)
                    if nm:
                        kills.setdefault(nm, []).append(e)
            elif n["k"] == "decl":
                for v in n["vars"]:
                    if "guard_ptr" in v.get("t", ""):
                        kills.setdefault(v["name"], []).append(e)
        for nm, rs in rel.items():
            ds = deref.get(nm, [])
            ks = set(kills.get(nm, []))
            for r in rs:
                bad = None
                for d in ds:
                    if d == r or d in fn.subtree(r):
                        continue
                    if _reaches_without(fn, r, d, ks):
                        bad = d
                        break
                n_inst += 1
                inst = "%s#%s" % (fn.pat, nm)
                if bad is not None:
                    ctx.bad(rid, inst, "'%s' is dereferenced at line %d after it gave up its protection at line %d (%s) without being re-acquired in between" % (
                        nm, fn.nodes[bad].get("l", 0), fn.nodes[r].get("l", 0), fn.expr(r)[:60]), fn.where(bad), fn=fn)
                else:
                    ctx.ok(rid, inst, "no dereference of '%s' reachable after %s" % (nm, fn.expr(r)[:40]), fn.where(r), fn=fn)
        # failed acquire_if_equal leaves the guard empty: no dereference on the failure edge before a re-acquisition
        for nm, ks_ in kills.items():
            for a in ks_:
                an = fn.nodes[a]
                if an["k"] != "call" or not an.get("callee", "").endswith("acquire_if_equal"):
                    continue
                ds = deref.get(nm, [])
                if not ds:
                    continue
                fail_edges, _n = flow.licensed_edges(fn, lambda f, nid, a=a: (False if nid == a else None))
                if not fail_edges:
                    continue
                others = set(kills.get(nm, [])) - {a}
                bad = None
                for (b0, s0) in fail_edges:
                    for d in ds:
                        if _block_reaches_event(fn, s0, d, others | {a}):
                            bad = d
                            break
                    if bad is not None:
                        break
                n_inst += 1
                inst = "%s#%s|acquire_if_equal-failed" % (fn.pat, nm)
                if bad is not None:
                    ctx.bad(rid, inst, "'%s' is dereferenced at line %d on a path where acquire_if_equal (line %d) failed and left the guard empty" % (
                        nm, fn.nodes[bad].get("l", 0), an.get("l", 0)), fn.where(bad), fn=fn)
                else:
                    ctx.ok(rid, inst, "no dereference on the failure side of acquire_if_equal", fn.where(a), fn=fn)
    return n_inst


def _block_reaches_event(fn, start_block, b, kills):
    """is event b reachable from the beginning of start_block without passing a kill event?"""
    pos = fn.pos()
    pb = pos.get(b)
    if pb is None:
        return False
    kblocks = {}
    for k in kills:
        if k in pos:
            kblocks.setdefault(pos[k][0], []).append(pos[k][1])
    seen = set()
    st = [start_block]
    while st:
        x = st.pop()
        if x in seen:
            continue
        seen.add(x)
        ks = kblocks.get(x, [])
        if x == pb[0]:
            if not any(ki < pb[1] for ki in ks):
                return True
        if ks:
            continue
        st.extend(s_ for s_ in fn.blocks[x]["succ"] if s_ is not None)
    return False


# ---------------------------------------------------------------------------------------------------------------
def expected_protected_until_cas(ctx, file_suffixes, rid="GUARD.expected-protected-until-cas"):
    """ABA: the address a CAS expects must stay allocated (guarded) from the moment it was taken from a guard until the CAS"""
    ctx.rule(rid, "when the expected value of a CAS in container code is the pointer held by a guard_ptr (marked_ptr expected = g.get() / = g), "
                  "g keeps its protection on every path from that snapshot to the CAS (no reset / reclaim / re-assignment / move-from of g in "
                  "between): otherwise the node can be reclaimed, its memory re-used for a node that is linked at the same place, and the CAS "
                  "succeeds on a different node with the same address")
    from .progress import _lname
    n_inst = 0
    for fn in ctx.facts.fns:
        if not any(s in fn.file for s in file_suffixes) or "/reclamation/" in fn.file or "test/" in fn.file:
            continue
        if fn.inlined_helper:
            continue
        # release / re-assignment events per guard storage name
        rel = {}
        for b, i, e, n in fn.events():
            k = fn.kids(e)
            if n["k"] == "call" and n.get("member") and k and "guard_ptr" in fn.nodes[k[0]].get("t", ""):
                nm = _lname(fn, k[0])
                leaf = n.get("callee", "?").split("::")[-1]
                if nm and leaf in ("reset", "reclaim", "operator=", "acquire", "acquire_if_equal", "swap"):
                    rel.setdefault(nm, []).append(e)
            elif n["k"] == "call" and n.get("callee") == "std::move" and k and "guard_ptr" in fn.nodes[k[0]].get("t", ""):
                nm = _lname(fn, k[0])
                if nm and _consumed(fn, e):
                    rel.setdefault(nm, []).append(e)
        for b, i, e, n in fn.events():
            a = fn.atomic(e)
            if not a or a["kind"] != "cas":
                continue
            k = fn.kids(e)
            if len(k) < 3:
                continue
            exp = k[1]
            en = fn.nodes[exp]
            # snapshots: (event that takes the pointer out of guard g, g)
            snaps = []
            if en["k"] == "ref" and en.get("dk") == "local":
                pos = fn.pos()
                for ev_b, ev_i, ev, dn in fn.events():
                    rhs = None
                    if dn["k"] == "decl":
                        for v in dn["vars"]:
                            if v["name"] == en["name"] and v.get("vid") in (None, en.get("vid")) and "init" in v:
                                rhs = v["init"]
                    elif dn["k"] == "bin" and dn.get("op") == "=" or (dn["k"] == "call" and dn.get("member") and dn.get("callee", "").endswith("operator=")):
                        kk = fn.kids(ev)
                        if kk and fn.nodes[kk[0]]["k"] == "ref" and fn.nodes[kk[0]].get("name") == en["name"] and \
                                fn.nodes[kk[0]].get("vid") in (None, en.get("vid")) and len(kk) > 1:
                            rhs = kk[1]
                    if rhs is None:
                        continue
                    for x in fn.subtree(rhs):
                        xn = fn.nodes[x]
                        if "guard_ptr" in xn.get("t", "") and xn["k"] in ("ref", "member"):
                            g = _lname(fn, x)
                            if g:
                                snaps.append((ev, g))
            for snap, g in snaps:
                releases = [r for r in rel.get(g, []) if r != snap]
                bad = None
                for r in releases:
                    # snapshot -> release (snapshot not re-executed) -> CAS (snapshot not re-executed)
                    if _reaches_without(fn, snap, r, {snap}) and _reaches_without(fn, r, e, {snap}):
                        bad = r
                        break
                n_inst += 1
                inst = "%s#%s@%s" % (fn.pat, g, a["field"].split("::")[-1])
                if bad is not None:
                    ctx.bad(rid, inst, "the CAS on %s at line %d expects the pointer taken from guard '%s' at line %d, but the guard gives up / changes its "
                                       "protection at line %d (%s) before the CAS: the expected node can be reclaimed and its address re-used (ABA)" % (
                                           a["field"].split("::")[-1], n.get("l", 0), g, fn.nodes[snap].get("l", 0), fn.nodes[bad].get("l", 0),
                                           fn.expr(bad)[:50]), fn.where(bad), fn=fn)
                else:
                    ctx.ok(rid, inst, "guard '%s' protects the expected node until the CAS" % g, fn.where(e), fn=fn)
    return n_inst


def find_info_paired(ctx, file_suffixes):
    """HM.find: find() resumes from info.prev, which points INTO the node guarded by info.save (the invariant find() asserts on entry).  In the
    callers of find() - the retry loops of the insert / erase operations - the protection held by info.save must therefore not be given up
    (reset / reclaim / moved from / overwritten) on a way to the next find() call unless info.prev is re-pointed in between."""
    from .progress import _lname
    rid = "HM.find"
    n_inst = 0
    for fn in ctx.facts.fns:
        if not any(fn.file.endswith(s) for s in file_suffixes) or fn.inlined_helper:
            continue
        leafname = fn.pat.split("::")[-1]
        if leafname == "find" and len(fn.params) >= 3:
            continue     # the search itself maintains the pair (rule HM.find#prev-with-save)
        finds, rel, reprev = [], {}, {}
        for b, i, e, n in fn.events():
            k = fn.kids(e)
            if n["k"] == "call" and n.get("callee", "").split("::")[-1] == "find" and n.get("xen") and len(k) >= 3:
                for a_ in k:
                    nm = _lname(fn, a_)
                    if nm and "find_info" in fn.nodes[a_].get("t", ""):
                        finds.append((e, nm))
            if n["k"] == "call" and n.get("member") and k:
                nm = _lname(fn, k[0])
                leaf = n.get("callee", "?").split("::")[-1]
                if nm and nm.endswith(".save") and leaf in ("reset", "reclaim", "operator="):
                    rel.setdefault(nm[:-5], []).append(e)
            elif n["k"] == "call" and n.get("callee") == "std::move" and k:
                nm = _lname(fn, k[0])
                if nm and nm.endswith(".save") and _consumed(fn, e):
                    rel.setdefault(nm[:-5], []).append(e)
            elif n["k"] == "bin" and n.get("op") == "=" and k:
                nm = _lname(fn, k[0])
                if nm and nm.endswith(".prev"):
                    reprev.setdefault(nm[:-5], []).append(e)
        for f_ev, info in finds:
            n_inst += 1
            bad = None
            for r in rel.get(info, []):
                if _reaches_without(fn, r, f_ev, set(reprev.get(info, []))):
                    bad = r
                    break
            inst = "%s#%s.save-held-until-find@%d" % (fn.pat, info, fn.nodes[f_ev].get("l", 0)) if bad is not None else "%s#%s.save-held-until-find" % (fn.pat, info)
            ctx.check(bad is None, rid, inst, "no release of %s.save reaches this find() without %s.prev being re-pointed" % (info, info),
                      "%s.save gives up its protection at line %d (%s) and find() is then called again with the old %s.prev, which points into the node that guard "
                      "protected: the node can be reclaimed and re-used in between, and the search resumes inside a foreign node (elements linked out of order / "
                      "use-after-free)" % (info, fn.nodes[bad].get("l", 0) if bad is not None else 0, fn.expr(bad)[:50] if bad is not None else "", info),
                      fn.where(f_ev), fn=fn)
    if n_inst < 6:
        ctx.broken.append("HM.find#save-held-until-find: only %d find() call sites with a find_info recognised" % n_inst)
