"""left_right rules (C13)."""
import re

from . import flow
from .flow import chain, guarded, present
from .evalx import evalx, Unknown
from .schemes import call

L = "xenium::left_right::"


def _instance_of(fn, nid):
    """which instance (_left/_right) a functor call targets"""
    x = fn.expr(nid)
    if "_left" in x and "_right" not in x:
        return "_left"
    if "_right" in x and "_left" not in x:
        return "_right"
    return None


class _Stuck(Exception):
    pass


def _functor_calls(fn):
    """calls of the functor parameter (directly or through std::forward)"""
    out = []
    for e in flow.find(fn, {"k": "call"}):
        k = fn.kids(e)
        if fn.nodes[e].get("callee", "") in ("std::forward", "std::move"):
            continue
        if k and flow.has_src(fn, k[0], "param#0") and fn.nodes[e].get("callee", "").endswith("operator()") or (
                k and fn.nodes[k[0]]["k"] == "ref" and fn.nodes[k[0]].get("dk") == "param"):
            out.append(e)
    return out


def _run(fn, indicator):
    """execute read()/update() with the left/right indicator holding `indicator`: returns the trace of ("func", instance), ("store", value),
    ("toggle", None) events.  Values: ints, "_left"/"_right" (the two instances).  Raises _Stuck when a branch cannot be decided."""
    funcs = set(_functor_calls(fn))
    env = {}
    trace = []

    def ev(nid, depth=0):
        if depth > 30:
            raise _Stuck("expression too deep")
        n = fn.nodes[nid]
        k = n["k"]
        c = fn.kids(nid)
        a = fn.atomic(nid) if k == "call" else None
        if a and a["field"].endswith("left_right::_lr_indicator") and a["kind"] == "load":
            return indicator
        if k == "call" and n.get("inl_ret_var"):
            if n["inl_ret_var"] in env:
                return env[n["inl_ret_var"]]       # value returned by a virtually inlined helper
            raise _Stuck("inlined helper did not return on this path")
        if k == "lit" or (k == "ref" and n.get("dk") == "enumconst") or (isinstance(n.get("v"), int) and k in ("ref", "member")):
            return n["v"]
        if k == "member" and n.get("leaf") in ("_left", "_right"):
            return n["leaf"]
        if k == "ref" and n.get("dk") == "local":
            if n["name"] in env:
                return env[n["name"]]
            raise _Stuck("local %s not defined on this path" % n["name"])
        if k == "cast" and c:
            return ev(c[0], depth + 1)
        if k == "un" and n["op"] == "!" and c:
            return int(not ev(c[0], depth + 1))
        if k == "bin" and len(c) == 2 and n["op"] in ("==", "!=", "&&", "||", "^", "&", "-", "+"):
            x = ev(c[0], depth + 1)
            if n["op"] == "&&" and not x:
                return 0
            if n["op"] == "||" and x:
                return 1
            y = ev(c[1], depth + 1)
            if isinstance(x, str) or isinstance(y, str):
                if n["op"] in ("==", "!="):
                    return int((x == y) == (n["op"] == "=="))
                raise _Stuck("arithmetic on an instance")
            return {"==": int(x == y), "!=": int(x != y), "&&": int(bool(x and y)), "||": int(bool(x or y)), "^": x ^ y, "&": x & y, "-": x - y, "+": x + y}[n["op"]]
        if k == "cond" and len(c) == 3:
            return ev(c[1] if ev(c[0], depth + 1) else c[2], depth + 1)
        raise _Stuck("cannot evaluate %s" % fn.expr(nid)[:60])

    b = fn.entry
    steps = 0
    while b is not None and steps < 200:
        steps += 1
        blk = fn.blocks[b]
        for e in blk["elems"]:
            n = fn.nodes[e]
            if n["k"] == "decl":
                for v in n["vars"]:
                    if "init" in v:
                        try:
                            env[v["name"]] = ev(v["init"])
                        except _Stuck:
                            env.pop(v["name"], None)
            elif n["k"] == "bin" and n["op"] == "=" and fn.nodes[fn.kids(e)[0]]["k"] == "ref" and fn.nodes[fn.kids(e)[0]].get("dk") == "local":
                try:
                    env[fn.nodes[fn.kids(e)[0]]["name"]] = ev(fn.kids(e)[1])
                except _Stuck:
                    env.pop(fn.nodes[fn.kids(e)[0]]["name"], None)
            elif e in funcs:
                args = fn.kids(e)[1:]
                try:
                    trace.append(("func", ev(args[0]) if args else None))
                except _Stuck:
                    trace.append(("func", None))
            elif n["k"] == "call":
                a = fn.atomic(e)
                if a and a["field"].endswith("left_right::_lr_indicator") and a["kind"] == "store":
                    try:
                        trace.append(("store", ev(fn.kids(e)[1])))
                    except _Stuck:
                        trace.append(("store", None))
                elif n.get("callee", "").endswith("::toggle_version_and_wait"):
                    trace.append(("toggle", None))
        succ = [s for s in blk["succ"]]
        if not succ or all(s is None for s in succ):
            break
        if "cond" in blk and len(succ) == 2:
            t = ev(blk["cond"])
            b = succ[0] if t else succ[1]
        else:
            b = succ[0]
    return trace


def rules(ctx):
    rid = "LR.table"
    ctx.rule(rid, "left_right reader/writer table agreement (finite): the reader map R (indicator value -> instance) from read() and the writer branches of "
                  "update() agree: in the branch taken for indicator value v the first functor call targets the instance != R(v), the seq_cst store writes v' "
                  "with R(v') = that instance, then toggle_version_and_wait(), then the functor is applied to R(v); exactly two functor calls per path, all under the mutex")
    # reader map: execute read() for both indicator values
    R = {}
    for fn in flow._shapes(ctx, L + "read"):
        lds = flow.find(fn, {"k": "call", "field": "left_right::_lr_indicator", "op": "load"})
        if not lds:
            ctx.broken.append("left_right::read: no load of the left/right indicator")
            continue
        for v in (0, 1):
            try:
                tr = _run(fn, v)
            except _Stuck as ex:
                ctx.broken.append("left_right::read not executable for indicator=%d (%s)" % (v, ex))
                tr = []
            fs = [x[1] for x in tr if x[0] == "func"]
            R[v] = fs[0] if len(fs) == 1 else None
        # guard constructed before the indicator is read; functor called on the selected instance
        gd = [e for e in flow.find(fn, {"k": "construct", "callee": "read_guard::read_guard"})]
        ok = bool(gd) and all(any(fn.before(g, l) for g in gd) for l in lds)
        ctx.check(ok, rid, L + "read#arrive<indicator-load", "reader registers (arrive) before reading the left/right indicator",
                  "the reader reads the indicator before registering in a read indicator: the writer's wait can miss it", fn.where(lds[0]), fn=fn)
        ctx.check(all(fn.atomic(l)["orders"] == ["seq_cst"] for l in lds), rid, L + "read#indicator-load-seq_cst", "indicator load is seq_cst", "indicator load must be seq_cst", fn.where(lds[0]), fn=fn)
    if len(R) == 2 and R[0] and R[1] and R[0] != R[1]:
        ctx.ok(rid, L + "read#reader-map", "reader map %s" % R, "xenium/left_right.hpp")
    else:
        ctx.bad(rid, L + "read#reader-map", "reader map is not a bijection indicator -> instance: %s" % R, "xenium/left_right.hpp")
        return
    for fn in flow._shapes(ctx, L + "update"):
        lock = flow.find(fn, {"k": "construct", "callee_re": r"lock_guard::lock_guard$"}) + flow.find(fn, call("lock"))
        funcs = _functor_calls(fn)
        stores = flow.find(fn, {"k": "call", "field": "left_right::_lr_indicator", "op": "store"})
        ctx.check(bool(lock) and all(any(fn.before(l, f) for l in lock) for f in funcs), rid, L + "update#under-mutex", "all functor calls under the writer mutex",
                  "update() applies the functor outside the writer mutex", fn.where(), fn=fn)
        if not funcs or not stores:
            ctx.bad(rid, L + "update#shape", "update(): no functor call / no indicator store found (functor calls %d, stores %d)" % (len(funcs), len(stores)), fn.where(), fn=fn)
            continue
        # the functor is applied twice: it must not be forwarded / moved (consumed) by an application that is followed by another one
        for e_ in funcs:
            k_ = fn.kids(e_)
            consumed = bool(k_) and fn.nodes[k_[0]]["k"] == "call" and fn.nodes[k_[0]].get("callee", "") in ("std::forward", "std::move")
            later = [f2 for f2 in funcs if f2 != e_ and fn.event_reaches(e_, f2)]
            ctx.check(not (consumed and later), rid, L + "update#functor-not-consumed", "the functor is not forwarded as an rvalue before its last application",
                      "update() applies std::forward/std::move(func) and applies the functor again afterwards: a functor with an rvalue-qualified (consuming) call operator "
                      "is empty for the second application, so the update reaches only one of the two instances", fn.where(e_), fn=fn)
        # execute update() for both values of the indicator (finite, path-sensitive)
        for v in (0, 1):
            inst = L + "update#arm(indicator=%d)" % v
            try:
                seq = _run(fn, v)
            except _Stuck as ex:
                ctx.broken.append("left_right::update not executable for indicator=%d (%s)" % (v, ex))
                continue
            want_first = R[1 - v]
            ok = (len(seq) == 4 and seq[0] == ("func", want_first) and seq[1][0] == "store" and seq[1][1] in (0, 1) and R.get(seq[1][1]) == want_first
                  and seq[2][0] == "toggle" and seq[3] == ("func", R[v]))
            ctx.check(ok, rid, inst, "sequence %s agrees with the reader map" % seq,
                      "writer path for indicator=%d performs %s; with the reader map %s it must be: func(%s), store(v' with R(v')=%s) [seq_cst], toggle_version_and_wait, func(%s) - "
                      "otherwise the functor modifies the instance readers are using" % (v, seq, R, want_first, want_first, R[v]), fn.where(), fn=fn)
        ctx.check(all(fn.atomic(s)["orders"] == ["seq_cst"] for s in stores), rid, L + "update#indicator-store-seq_cst", "indicator stores are seq_cst", "indicator store must be seq_cst", fn.where(), fn=fn)
        ctx.exhaustive[rid] = True
    # the value computed by the read functor is copied out while the reader is still registered
    for fn in flow._shapes(ctx, L + "read"):
        ret = (fn.rec.get("ret") or "").strip()
        ctx.check(not ret.endswith("&") and not ret.endswith("&&"), rid, L + "read#returns-by-value", "read() returns by value (%s)" % (ret or "void"),
                  "read() returns %s: a functor that returns a reference into the protected instance lets that reference escape the read guard - the caller then reads "
                  "(copies) the live instance unprotected while a complete update() can run in the middle of it (mixed state)" % ret, fn.where(), fn=fn)
    # both replicas start from the state handed to the constructor
    for fn in flow._shapes(ctx, L + "left_right"):
        inits = [e for b, i, e, n in fn.events() if n["k"] == "init" and n.get("leaf") in ("_left", "_right")]
        if len(inits) != 2 or not fn.params:
            continue
        srcs = {fn.nodes[e]["leaf"]: flow.srcs(fn, e) for e in inits}
        if len(fn.params) == 1:
            # both replicas from the single argument; the argument may be moved from only by the LAST initialiser that uses it
            order = sorted(inits, key=lambda e: fn.pos()[e])
            first_moves = any(fn.nodes[x]["k"] == "call" and fn.nodes[x].get("callee") == "std::move" for x in fn.subtree(order[0]))
            ok = all(any(t.startswith("param#0") for t in srcs[l_]) for l_ in ("_left", "_right")) and not first_moves
            ctx.check(ok, rid, L + "left_right(source)#both-replicas-from-the-argument", "both replicas are initialised from the argument, which is moved from last",
                      "the one-argument constructor moves from its argument in the first member initialiser and uses it again for the second replica: the second replica is "
                      "built from a moved-from value, readers alternate between two different histories after every update", fn.where(order[0]), fn=fn)
        if len(fn.params) == 2:
            ok = any(t.startswith("param#0") for t in srcs["_left"]) and any(t.startswith("param#1") for t in srcs["_right"]) and not any(
                t.startswith("param#0") for t in srcs["_right"]) and not any(t.startswith("param#1") for t in srcs["_left"])
            ctx.check(ok, rid, L + "left_right(left,right)#each-replica-from-its-argument", "_left is initialised from the first, _right from the second argument",
                      "the two-argument constructor does not initialise _left from its first and _right from its second argument (%s): a replica built from a moved-from "
                      "or foreign value serves readers after every other update" % {k: sorted(v) for k, v in srcs.items()}, fn.where(), fn=fn)
    rid2 = "LR.toggle"
    ctx.rule(rid2, "toggle_version_and_wait: wait(next) < version store(next) < wait(current) with next = (current+1)&1; the read guard arrives on the indicator "
                   "selected by the version index and departs in its destructor")
    for fn in flow._shapes(ctx, L + "toggle_version_and_wait"):
        waits = flow.find(fn, call("wait_for_readers"))
        st = flow.find(fn, {"k": "call", "field": "left_right::_version_index", "op": "store"})
        inst = L + "toggle_version_and_wait"
        if len(waits) != 2 or len(st) != 1:
            ctx.bad(rid2, inst + "#shape", "expected wait, version store, wait (waits %d, stores %d)" % (len(waits), len(st)), fn.where(), fn=fn)
            continue
        w = sorted(waits, key=lambda e: fn.pos()[e])
        ok = fn.before(w[0], st[0]) and fn.before(st[0], w[1])
        ctx.check(ok, rid2, inst + "#wait<store<wait", "wait(next) < store(next) < wait(current)", "the version index is toggled before the first wait / after the second", fn.where(st[0]), fn=fn)
        bad = None
        try:
            for cur in (0, 1, 2, 3):
                env = {"call:load": (lambda *a, cur=cur: cur)}
                # locals: current_version = load(); evaluate the args of the waits and the store
                e0 = {nm: cur for nm in {fn.nodes[x]["name"] for w_ in (w[0], w[1], st[0]) for x in fn.subtree(w_) if fn.nodes[x]["k"] == "ref" and fn.nodes[x].get("dk") == "local"}
                      if (flow.unique_def(fn, nm) is not None and fn.atomic(flow.unique_def(fn, nm)))}
                a0 = evalx(fn, fn.kids(w[0])[-1], e0)
                a1 = evalx(fn, fn.kids(w[1])[-1], e0)
                sv = evalx(fn, fn.kids(st[0])[1], e0)
                if not (a0 == ((cur + 1) & 1) and sv == a0 and a1 == (cur & 1)):
                    bad = (cur, a0, sv, a1)
        except Unknown as ex:
            ctx.note("toggle arithmetic not evaluable: %s" % ex)
        ctx.check(bad is None, rid2, inst + "#indices", "first wait and store use (version+1)&1, second wait uses version&1",
                  "for version %s the writer waits on indicator %s, stores %s, then waits on %s" % (bad or (0, 0, 0, 0)), fn.where(), fn=fn)
    chain(ctx, rid2, L + "read_guard::read_guard", [{"k": "call", "field": "left_right::_version_index", "op": "load"}, call("arrive")], label="version<arrive",
          mode="dom") if ctx.facts.shapes(L + "read_guard::read_guard") else None
    present(ctx, rid2, L + "read_guard::~read_guard", call("depart"), label="departs")
    present(ctx, rid2, L + "read_guard::read_guard", call("arrive"), label="arrives")
    guarded(ctx, rid2, L + "get_read_indicator", {"k": "return", "expr_re": "_read_indicator1"}, {"k": "bin", "pred": lambda fn, nid: fn.nodes[nid].get("op") == "==" and flow.has_src(fn, nid, "param#0") and any(fn.nodes[k].get("v") == 0 for k in fn.kids(nid))}, True, label="idx0->indicator1")
