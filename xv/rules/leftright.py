"""left_right rules (C13)."""
import re

from . import flow
from .flow import chain, guarded, present
from .evalx import evalx, Unknown
from .schemes import call

L = "xenium::left_right::"


def _instance_of(fn, nid):
    """which instance (_left/_right) a functor call targets"""
    x = fn.expr(nid)
    if "_left" in x and "_right" not in x:
        return "_left"
    if "_right" in x and "_left" not in x:
        return "_right"
    return None


def rules(ctx):
    rid = "LR.table"
    ctx.rule(rid, "left_right reader/writer table agreement (finite): the reader map R (indicator value -> instance) from read() and the writer branches of "
                  "update() agree: in the branch taken for indicator value v the first functor call targets the instance != R(v), the seq_cst store writes v' "
                  "with R(v') = that instance, then toggle_version_and_wait(), then the functor is applied to R(v); exactly two functor calls per path, all under the mutex")
    # reader map
    R = {}
    for fn in flow._shapes(ctx, L + "read"):
        conds = [e for e, n in enumerate(fn.nodes) if n["k"] == "cond"]
        lds = flow.find(fn, {"k": "call", "field": "left_right::_lr_indicator", "op": "load"})
        if not conds or not lds:
            ctx.broken.append("left_right::read: indicator selection idiom not found")
            continue
        c = conds[0]
        k = fn.kids(c)
        cmpn = fn.nodes[k[0]]
        const = None
        for x in fn.kids(k[0]):
            if "v" in fn.nodes[x]:
                const = fn.nodes[x]["v"]
        if cmpn["k"] != "bin" or cmpn["op"] not in ("==", "!=") or const is None:
            ctx.broken.append("left_right::read: selection condition not of the form indicator == CONST")
            continue
        a, b = _instance_of(fn, k[1]), _instance_of(fn, k[2])
        if cmpn["op"] == "!=":
            a, b = b, a
        R[const] = a
        R[1 - const] = b
        # guard constructed before the indicator is read; functor called on the selected instance
        gd = [e for e in flow.find(fn, {"k": "construct", "callee": "read_guard::read_guard"})]
        ok = bool(gd) and all(any(fn.before(g, l) for g in gd) for l in lds)
        ctx.check(ok, rid, L + "read#arrive<indicator-load", "reader registers (arrive) before reading the left/right indicator",
                  "the reader reads the indicator before registering in a read indicator: the writer's wait can miss it", fn.where(lds[0]), fn=fn)
        ctx.check(all(fn.atomic(l)["orders"] == ["seq_cst"] for l in lds), rid, L + "read#indicator-load-seq_cst", "indicator load is seq_cst", "indicator load must be seq_cst", fn.where(lds[0]), fn=fn)
    if len(R) == 2 and R[0] and R[1] and R[0] != R[1]:
        ctx.ok(rid, L + "read#reader-map", "reader map %s" % R, "xenium/left_right.hpp")
    else:
        ctx.bad(rid, L + "read#reader-map", "reader map is not a bijection indicator -> instance: %s" % R, "xenium/left_right.hpp")
        return
    for fn in flow._shapes(ctx, L + "update"):
        lock = flow.find(fn, {"k": "construct", "callee_re": r"lock_guard::lock_guard$"}) + flow.find(fn, call("lock"))
        funcs = [e for e in flow.find(fn, {"k": "call"}) if fn.kids(e) and fn.nodes[fn.kids(e)[0]]["k"] == "ref" and fn.nodes[fn.kids(e)[0]].get("dk") == "param"]
        stores = flow.find(fn, {"k": "call", "field": "left_right::_lr_indicator", "op": "store"})
        toggles = flow.find(fn, call("toggle_version_and_wait"))
        ctx.check(bool(lock) and all(any(fn.before(l, f) for l in lock) for f in funcs), rid, L + "update#under-mutex", "all functor calls under the writer mutex",
                  "update() applies the functor outside the writer mutex", fn.where(), fn=fn)
        # branch condition: indicator load == CONST
        branches = [(b, blk) for b, blk in fn.blocks.items() if "cond" in blk and "_lr_indicator" in fn.expr(blk["cond"]) and b in fn.live_blocks()]
        if not branches or len(funcs) != 4 or len(stores) != 2 or len(toggles) != 2:
            ctx.bad(rid, L + "update#shape", "update(): expected one indicator branch with two functor calls, one indicator store and one toggle per arm "
                                             "(branches %d, functor calls %d, stores %d, toggles %d)" % (len(branches), len(funcs), len(stores), len(toggles)), fn.where(), fn=fn)
            continue
        b, blk = branches[0]
        cn = fn.nodes[blk["cond"]]
        const = [fn.nodes[x]["v"] for x in fn.kids(blk["cond"]) if "v" in fn.nodes[x]]
        if cn["k"] != "bin" or cn["op"] not in ("==", "!=") or not const:
            ctx.broken.append("left_right::update: branch condition not of the form indicator == CONST")
            continue
        tv = const[0] if cn["op"] == "==" else 1 - const[0]
        arms = {tv: blk["succ"][0], 1 - tv: blk["succ"][1]}
        for v, start in arms.items():
            reach = fn.reachable_blocks(start)
            evs = []
            for bb in sorted(reach, reverse=True):
                for e in fn.blocks[bb]["elems"]:
                    if e in funcs or e in stores or e in toggles:
                        evs.append(e)
            # keep only events of this arm (not reachable from the other arm's start)
            other = fn.reachable_blocks(arms[1 - v])
            evs = [e for e in evs if fn.pos()[e][0] not in other or fn.pos()[e][0] in reach and fn.pos()[e][0] not in other]
            seq = []
            for e in evs:
                if e in funcs:
                    seq.append(("func", _instance_of(fn, e)))
                elif e in stores:
                    seq.append(("store", fn.nodes[fn.kids(e)[1]].get("v")))
                else:
                    seq.append(("toggle", None))
            inst = L + "update#arm(indicator=%d)" % v
            want_first = R[1 - v]
            ok = (len(seq) == 4 and seq[0] == ("func", want_first) and seq[1][0] == "store" and seq[1][1] is not None and R.get(seq[1][1]) == want_first
                  and seq[2][0] == "toggle" and seq[3] == ("func", R[v]))
            ctx.check(ok, rid, inst, "sequence %s agrees with the reader map" % seq,
                      "writer arm for indicator=%d performs %s; with the reader map %s it must be: func(%s), store(v' with R(v')=%s) [seq_cst], toggle_version_and_wait, func(%s) - "
                      "otherwise the functor modifies the instance readers are using" % (v, seq, R, want_first, want_first, R[v]), fn.where(), fn=fn)
        ctx.check(all(fn.atomic(s)["orders"] == ["seq_cst"] for s in stores), rid, L + "update#indicator-store-seq_cst", "indicator stores are seq_cst", "indicator store must be seq_cst", fn.where(), fn=fn)
        ctx.exhaustive[rid] = True
    rid2 = "LR.toggle"
    ctx.rule(rid2, "toggle_version_and_wait: wait(next) < version store(next) < wait(current) with next = (current+1)&1; the read guard arrives on the indicator "
                   "selected by the version index and departs in its destructor")
    for fn in flow._shapes(ctx, L + "toggle_version_and_wait"):
        waits = flow.find(fn, call("wait_for_readers"))
        st = flow.find(fn, {"k": "call", "field": "left_right::_version_index", "op": "store"})
        inst = L + "toggle_version_and_wait"
        if len(waits) != 2 or len(st) != 1:
            ctx.bad(rid2, inst + "#shape", "expected wait, version store, wait (waits %d, stores %d)" % (len(waits), len(st)), fn.where(), fn=fn)
            continue
        w = sorted(waits, key=lambda e: fn.pos()[e])
        ok = fn.before(w[0], st[0]) and fn.before(st[0], w[1])
        ctx.check(ok, rid2, inst + "#wait<store<wait", "wait(next) < store(next) < wait(current)", "the version index is toggled before the first wait / after the second", fn.where(st[0]), fn=fn)
        bad = None
        try:
            for cur in (0, 1, 2, 3):
                env = {"call:load": (lambda *a, cur=cur: cur)}
                # locals: current_version = load(); evaluate the args of the waits and the store
                e0 = {nm: cur for nm in {fn.nodes[x]["name"] for w_ in (w[0], w[1], st[0]) for x in fn.subtree(w_) if fn.nodes[x]["k"] == "ref" and fn.nodes[x].get("dk") == "local"}
                      if (flow.unique_def(fn, nm) is not None and fn.atomic(flow.unique_def(fn, nm)))}
                a0 = evalx(fn, fn.kids(w[0])[-1], e0)
                a1 = evalx(fn, fn.kids(w[1])[-1], e0)
                sv = evalx(fn, fn.kids(st[0])[1], e0)
                if not (a0 == ((cur + 1) & 1) and sv == a0 and a1 == (cur & 1)):
                    bad = (cur, a0, sv, a1)
        except Unknown as ex:
            ctx.note("toggle arithmetic not evaluable: %s" % ex)
        ctx.check(bad is None, rid2, inst + "#indices", "first wait and store use (version+1)&1, second wait uses version&1",
                  "for version %s the writer waits on indicator %s, stores %s, then waits on %s" % (bad or (0, 0, 0, 0)), fn.where(), fn=fn)
    chain(ctx, rid2, L + "read_guard::read_guard", [{"k": "call", "field": "left_right::_version_index", "op": "load"}, call("arrive")], label="version<arrive",
          mode="dom") if ctx.facts.shapes(L + "read_guard::read_guard") else None
    present(ctx, rid2, L + "read_guard::~read_guard", call("depart"), label="departs")
    present(ctx, rid2, L + "read_guard::read_guard", call("arrive"), label="arrives")
    guarded(ctx, rid2, L + "get_read_indicator", {"k": "return", "expr_re": "_read_indicator1"}, {"k": "bin", "pred": lambda fn, nid: fn.nodes[nid].get("op") == "==" and flow.has_src(fn, nid, "param#0") and any(fn.nodes[k].get("v") == 0 for k in fn.kids(nid))}, True, label="idx0->indicator1")
