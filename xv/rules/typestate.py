"""K3/K13 - guard_ptr typestate for all six reclamation schemes (C15.c, C18.a, C18.b).

A tiny path-sensitive abstract interpreter over the CFG of each guard_ptr member.  Abstract state: nullness of this->ptr (P), of the other
guard's ptr (Q), of the slot pointers hp/he (H, Hq), nullness of pointer-valued locals, and the net number R of protection resources taken
(critical-region entries, hazard slots / shares, reference-count increments).  Branches on nullness tests refine symbolic booleans; other
conditions fork.  At every normal exit  R == [P_exit]-[P_entry] + [Q_exit]-[Q_entry]  must hold for every valuation of the remaining
symbols (and H == P for the slot schemes); at every call that can throw the same must hold for the slot schemes (K13)."""
import itertools
import re

from . import flow

R_ = "xenium::reclamation::"
SCHEMES = {
    "hazard_pointer": {"slot": "hp", "alloc": ("alloc_hazard_pointer",), "release": ("release_hazard_pointer",), "enter": (), "leave": (), "throws": True},
    "hazard_eras": {"slot": "he", "alloc": ("alloc_hazard_era",), "release": ("release_hazard_era",), "enter": ("add_guard",), "leave": ("release_guard",), "throws": True},
    "generic_epoch_based": {"slot": None, "enter": ("enter_critical",), "leave": ("leave_critical",)},
    "quiescent_state_based": {"slot": None, "enter": ("enter_region",), "leave": ("leave_region",)},
    "stamp_it": {"slot": None, "enter": ("enter_region",), "leave": ("leave_region",)},
    "lock_free_ref_count": {"slot": None, "enter": (), "leave": ("decrement_refcnt",), "refcount": True},
}
MEMBERS = ("guard_ptr", "operator=", "acquire", "acquire_if_equal", "reset", "reclaim")

T, F = True, False


class Sym(str):
    pass


class St:
    __slots__ = ("P", "Q", "H", "Hq", "R", "loc", "env", "fresh", "trace", "dead", "known", "flags")

    def __init__(self):
        self.P = Sym("P0")
        self.Q = Sym("Q0")
        self.H = Sym("P0")
        self.Hq = Sym("Q0")
        self.R = 0
        self.loc = {}
        self.env = {}
        self.fresh = 0
        self.trace = []
        self.dead = False
        self.known = {}
        self.flags = {}

    def copy(self):
        s = St()
        s.P, s.Q, s.H, s.Hq, s.R = self.P, self.Q, self.H, self.Hq, self.R
        s.loc = dict(self.loc)
        s.env = dict(self.env)
        s.fresh = self.fresh
        s.trace = list(self.trace)
        s.known = dict(self.known)
        s.flags = dict(self.flags)
        return s

    def new(self, hint="n"):
        self.fresh += 1
        return Sym("%s%d" % (hint, self.fresh))

    def val(self, v):
        while isinstance(v, Sym) and v in self.env:
            v = self.env[v]
        return v

    def term(self, v):
        """symbolic indicator: returns (const, {sym: coef})"""
        v = self.val(v)
        if v is T:
            return 1, {}
        if v is F:
            return 0, {}
        return 0, {v: 1}


class Exec:
    def __init__(self, fn, scheme, cfg, member, is_ctor, other_param):
        self.fn = fn
        self.scheme = scheme
        self.cfg = cfg
        self.member = member
        self.is_ctor = is_ctor
        self.other = other_param
        self.violations = []
        self.exits = 0
        self.paths = 0
        self.Rsym = []  # symbolic contributions to R: list of (coef, sym) handled inside state via list
        self.throw_points = 0

    # ---------- expression classification
    def _member_of(self, nid, leafs):
        n = self.fn.nodes[nid]
        if n["k"] == "member" and n.get("leaf") in leafs:
            base = self.fn.kids(nid)[0] if self.fn.kids(nid) else None
            if base is None:
                return None
            bn = self.fn.nodes[base]
            if bn["k"] == "this":
                return "this"
            if bn["k"] == "ref" and bn.get("dk") == "param":
                return "other"
            if bn["k"] == "cast" or bn["k"] == "call":
                # static_cast<base&>(p).ptr etc.
                for x in self.fn.subtree(base):
                    xn = self.fn.nodes[x]
                    if xn["k"] == "this":
                        return "this"
                    if xn["k"] == "ref" and xn.get("dk") == "param":
                        return "other"
        return None

    def nn(self, st, nid, depth=0):
        """nullness of a pointer-ish expression"""
        fn = self.fn
        if nid is None or nid < 0 or depth > 12:
            return st.new()
        n = fn.nodes[nid]
        k = n["k"]
        c = fn.kids(nid)
        who = self._member_of(nid, ("ptr",))
        if who == "this":
            return st.P
        if who == "other":
            return st.Q
        slot = self.cfg.get("slot")
        if slot:
            who = self._member_of(nid, (slot,))
            if who == "this":
                return st.H
            if who == "other":
                return st.Hq
        if k in ("null", "zeroinit"):
            return F
        if k == "lit":
            return T if n.get("v") else F
        if k == "ref":
            if n.get("dk") in ("local", "param"):
                nm = n["name"]
                if nm not in st.loc:
                    st.loc[nm] = st.new("v_" + nm + "_")
                return st.loc[nm]
            return st.new()
        if k in ("cast", "construct") and c:
            if k == "construct" and len(c) >= 1:
                return self.nn(st, c[0], depth + 1)
            if k == "construct":
                return F
            return self.nn(st, c[0], depth + 1)
        if k == "construct" and not c:
            return F
        if k == "call":
            leaf = n.get("callee", "").split("::")[-1]
            if leaf in ("move", "forward", "get", "operator->", "operator*", "operator conv", "self") and c:
                return self.nn(st, c[0], depth + 1)
            if leaf in self.cfg.get("alloc", ()):
                return T
            if leaf == "load":
                return st.new("ld")
            return st.new("c")
        if k == "un" and n["op"] == "&":
            return T
        if k == "this":
            return T
        return st.new()

    def cond(self, st, nid, depth=0):
        """truth value (T/F/Sym) of a condition, plus optional unification to apply on each outcome: returns (value, on_true, on_false)
        where on_* are lists of (symA, symB) equalities"""
        fn = self.fn
        # flag variables carry the truth value their definition had WHEN IT WAS EXECUTED (the guard's state may have changed since)
        atom, pol = flow.strip_cond(fn, nid, follow=False)
        n = fn.nodes[atom]
        fname = n["name"] if (n["k"] == "ref" and n.get("dk") == "local") else n.get("inl_ret_var") if n["k"] == "call" else None
        if fname is not None and fname in st.flags:
            val, on_t, on_f = st.flags[fname]
            if pol:
                return val, on_t, on_f
            return self._negv(val), on_f, on_t
        if depth < 6 and ((n["k"] == "ref" and n.get("dk") == "local") or (n["k"] == "call" and n.get("inl_ret_var"))):
            # not defined on this path by a tracked definition: fall back to the (unique) defining expression
            atom2, pol2 = flow.strip_cond(fn, atom)
            if atom2 != atom:
                val, on_t, on_f = self.cond(st, atom2, depth + 1)
                if not (pol == pol2):
                    pass
                if not pol2:
                    val = self._negv(val)
                    on_t, on_f = on_f, on_t
                if not pol:
                    val = self._negv(val)
                    on_t, on_f = on_f, on_t
                return val, on_t, on_f
        k = n["k"]
        c = fn.kids(atom)
        val = None
        on_t, on_f = [], []
        if k in ("bin", "call") and (n.get("op") in ("==", "!=") or n.get("callee", "").split("::")[-1] in ("operator==", "operator!=")) and len(c) == 2:
            op = n.get("op") or ("==" if n["callee"].endswith("==") else "!=")
            a, b = self.nn(st, c[0]), self.nn(st, c[1])
            a, b = st.val(a), st.val(b)
            def isnull(x):
                xn = fn.nodes[x]
                if xn["k"] == "null":
                    return True
                if xn["k"] == "lit" and xn.get("v") == 0:
                    return True
                if xn["k"] in ("construct", "cast"):
                    kk = fn.kids(x)
                    return (not kk and xn["k"] == "construct") or (bool(kk) and isnull(kk[0]))
                return False
            if isnull(c[1]):
                eq = self._neg(a)  # a == null  <=>  not nonnull(a)
            elif isnull(c[0]):
                eq = self._neg(b)
            else:
                # equality of two pointers: fresh outcome; if equal their nullness agrees
                txt = fn.expr(atom)
                eq = st.new("eq")
                if "this" in txt and "&" in txt and any(fn.nodes[x]["k"] == "this" for x in c):
                    eq = Sym("SELF")
                if op == "==":
                    on_t = [(a, b)]
                else:
                    on_f = [(a, b)]
                if self.scheme == "hazard_eras" and (
                        (flow.has_src(fn, c[0], "load:era_clock") and flow.has_src(fn, c[1], "call:get_era")) or
                        (flow.has_src(fn, c[1], "load:era_clock") and flow.has_src(fn, c[0], "call:get_era"))):
                    # frozen domain fact (checked by HE.era-nonzero): prev_era is 0 iff the guard holds no hazard era and eras are never 0,
                    # so era == prev_era implies that a hazard era is held
                    if op == "==":
                        on_t = on_t + [(st.H, T)]
                    else:
                        on_f = on_f + [(st.H, T)]
                val = eq if op == "==" else ("not", eq)
                if not pol:
                    val = self._negv(val)
                    on_t, on_f = on_f, on_t
                return val, on_t, on_f
            val = eq if op == "==" else self._negv(eq)
        elif k in ("member", "ref", "call", "cast", "this"):
            # pointer / marked_ptr / guard converted to bool
            t = n.get("t", "")
            if k == "call" and n.get("callee", "").split("::")[-1] not in ("operator conv", "get", "operator bool", "load", "move"):
                val = st.new("b")
            else:
                val = self.nn(st, atom)
        else:
            val = st.new("b")
        if not pol:
            val = self._negv(val)
        return val, on_t, on_f

    def _snapshot(self, st, nid):
        """(truth value, on_true, on_false) of a boolean expression in the CURRENT state; the value is T / F / Sym / ("not", Sym), compound
        conditions become a fresh symbol; on_true / on_false are the facts that hold when the flag is later found true / false"""
        n = self.fn.nodes[nid]
        if n["k"] == "lit" and n.get("v") in (0, 1, True, False):
            return (T if n["v"] else F), [], []
        a, pol = flow.strip_cond(self.fn, nid, follow=False)
        an = self.fn.nodes[a]
        if an["k"] == "bin" and an.get("op") in ("&&", "||"):
            return st.new("f"), [], []
        val, on_t, on_f = self.cond(st, nid)
        # the facts refer to the values the state variables have NOW
        on_t = [(st.val(x), st.val(y)) for x, y in on_t]
        on_f = [(st.val(x), st.val(y)) for x, y in on_f]
        if isinstance(val, tuple):
            inner = st.val(val[1])
            if inner is T or inner is F:
                return (F if inner is T else T), on_t, on_f
            if isinstance(inner, tuple):
                return st.new("f"), [], []
            return ("not", inner), on_t, on_f
        return st.val(val), on_t, on_f

    @staticmethod
    def _neg(v):
        if v is T:
            return F
        if v is F:
            return T
        return ("not", v)

    def _negv(self, v):
        if isinstance(v, tuple) and v[0] == "not":
            return v[1]
        return self._neg(v)

    # ---------- effects
    def assign_ptr(self, st, lhs, rhs_val):
        who = self._member_of(lhs, ("ptr",))
        if who == "this":
            st.P = rhs_val
            return True
        if who == "other":
            st.Q = rhs_val
            return True
        slot = self.cfg.get("slot")
        if slot:
            who = self._member_of(lhs, (slot,))
            if who == "this":
                st.H = rhs_val
                return True
            if who == "other":
                st.Hq = rhs_val
                return True
        n = self.fn.nodes[lhs]
        if n["k"] == "ref" and n.get("dk") in ("local", "param"):
            st.loc[n["name"]] = rhs_val
            return True
        return False

    def add_R(self, st, coef, indicator):
        """R += coef * [indicator]"""
        v = st.val(indicator)
        if v is T:
            st.R = self._radd(st.R, coef)
        elif v is F:
            pass
        else:
            st.R = self._radd(st.R, (coef, v))

    @staticmethod
    def _radd(R, x):
        if isinstance(R, int):
            R = (R, [])
        c, terms = R
        terms = list(terms)
        if isinstance(x, int):
            c += x
        else:
            terms.append(x)
        return (c, terms)

    def event(self, st, e):
        fn = self.fn
        n = fn.nodes[e]
        k = n["k"]
        c = fn.kids(e)
        cfg = self.cfg
        if k == "decl":
            for v in n["vars"]:
                if "init" in v:
                    if v.get("t", "").replace("const ", "").strip() == "bool":
                        st.flags[v["name"]] = self._snapshot(st, v["init"])
                    else:
                        st.loc[v["name"]] = self.nn(st, v["init"])
            return
        if k == "init":
            # constructor initialisers: base(p) / base(p.ptr) / hp(p.hp) / he()
            leaf = n.get("leaf", "")
            nm = n.get("name", "")
            val = self.nn(st, c[0]) if c else F
            if cfg.get("slot") and leaf == cfg["slot"]:
                st.H = val
            elif nm.startswith("base:") or leaf == "ptr":
                st.P = val
            return
        if k == "bin" and n["op"] == "=" and len(c) == 2:
            ln = fn.nodes[c[0]]
            if ln["k"] == "ref" and ln.get("dk") == "local" and ln.get("t", "").replace("const ", "").strip() == "bool":
                st.flags[ln["name"]] = self._snapshot(st, c[1])
                return
            self.assign_ptr(st, c[0], self.nn(st, c[1]))
            return
        if k == "construct":
            callee = n.get("callee", "")
            # delegating constructor call inside a ctor: guard_ptr(MarkedPtr(p)) / guard_ptr(p.ptr)
            if callee.endswith("guard_ptr::guard_ptr") and self.is_ctor and callee.startswith(R_ + self.scheme):
                val = self.nn(st, c[0]) if c else F
                st.P = val
                self.add_R(st, 1, val)
                if cfg.get("slot"):
                    st.H = val
            return
        if k != "call":
            return
        callee = n.get("callee", "")
        leaf = callee.split("::")[-1]
        if leaf == "operator=" and n.get("member") and len(c) == 2:
            if self.assign_ptr(st, c[0], self.nn(st, c[1])):
                return
        if leaf == "reset" and c:
            who = self._member_of(c[0], ("ptr",))
            if who == "this":
                st.P = F
                return
            if who == "other":
                st.Q = F
                return
            if fn.nodes[c[0]]["k"] == "this" and callee.startswith(R_ + self.scheme + "::guard_ptr"):
                # own reset(): releases whatever is held
                if cfg.get("slot"):
                    self.add_R(st, -1, st.H)
                    st.H = F
                else:
                    self.add_R(st, -1, st.P)
                st.P = F
                return
            bn = fn.nodes[c[0]]
            if bn["k"] == "ref" and bn.get("dk") == "local":
                st.loc[bn["name"]] = F
                return
        if leaf in cfg.get("enter", ()):
            st.R = self._radd(st.R, 1)
            return
        if leaf in cfg.get("leave", ()):
            st.R = self._radd(st.R, -1)
            return
        if leaf in cfg.get("alloc", ()):
            st.R = self._radd(st.R, 1)
            return
        if leaf in cfg.get("release", ()):
            # release_hazard_pointer(hp) / release_hazard_era(he): releases if non-null and nulls the pointer
            self.add_R(st, -1, st.H)
            st.H = F
            return
        if cfg.get("refcount") and leaf == "fetch_add" and "ref_count" in fn.expr(e):
            st.R = self._radd(st.R, 1)
            return
        if leaf == "swap" and len(c) == 2:
            # std::swap(x, y) of two state fields
            def cls(x):
                who = self._member_of(x, ("ptr",))
                if who:
                    return "P" if who == "this" else "Q"
                if cfg.get("slot"):
                    who = self._member_of(x, (cfg["slot"],))
                    if who:
                        return "H" if who == "this" else "Hq"
                return None
            a, b = cls(c[0]), cls(c[1])
            if a and b:
                va, vb = getattr(st, a), getattr(st, b)
                setattr(st, a, vb)
                setattr(st, b, va)
            return
        if leaf == "do_swap" and self.member == "swap" and getattr(self, "resolve", None):
            # the scheme's part of swap(): interpret the (straight-line) callee; `this` and the parameter keep their roles
            callee_fn = self.resolve(n)
            if callee_fn is None or any("cond" in b for b in callee_fn.blocks.values()):
                st.H, st.Hq = st.new("u"), st.new("u")
                return
            saved = self.fn
            self.fn = callee_fn
            try:
                for b2, i2, e2, n2 in callee_fn.events(live_only=True):
                    self.event(st, e2)
            finally:
                self.fn = saved
            return

    def may_throw(self, e):
        n = self.fn.nodes[e]
        if n["k"] != "call":
            return False
        return self.cfg.get("throws") and n.get("callee", "").split("::")[-1] in self.cfg.get("alloc", ())

    # ---------- invariant
    def check(self, st, where, kind, retval=None):
        self.exits += 1
        if st.val(Sym("SELF")) is T:
            return  # self-assignment: source and target are the same object, returns before any effect (checked separately)
        syms = set()

        def collect(v):
            v = st.val(v)
            if isinstance(v, Sym):
                syms.add(v)
            elif isinstance(v, tuple):
                collect(v[1])
        for v in (st.P, st.Q, st.H, st.Hq, Sym("P0"), Sym("Q0")):
            collect(v)
        Rc, Rterms = st.R if isinstance(st.R, tuple) else (st.R, [])
        for coef, s in Rterms:
            collect(s)
        syms = sorted(syms)
        if len(syms) > 10:
            syms = syms[:10]
        for vals in itertools.product((T, F), repeat=len(syms)):
            env = dict(zip(syms, vals))

            def ev(v):
                v = st.val(v)
                if isinstance(v, tuple):
                    return not ev(v[1])
                if isinstance(v, Sym):
                    return env.get(v, F)
                return v
            p0 = F if self.is_ctor else ev(Sym("P0"))
            q0 = ev(Sym("Q0")) if self.other else F
            pe, qe = ev(st.P), (ev(st.Q) if self.other else F)
            r = Rc + sum(coef for coef, s in Rterms if ev(s))
            want = int(pe) - int(p0) + (int(qe) - int(q0) if self.other_transfers else 0)
            problems = []
            if kind == "exit":
                if r != want:
                    problems.append("takes %+d protection unit(s) but the guard's state changes by %+d" % (r, want))
                if self.cfg.get("slot"):
                    if ev(st.H) != pe:
                        problems.append("slot pointer %s null while ptr is %s null" % ("non" if ev(st.H) else "", "non" if pe else ""))
                    if self.other and ev(st.Hq) != qe:
                        problems.append("source guard: slot pointer and ptr disagree")
                if retval is False and pe:
                    problems.append("returns false with a non-empty guard")
                if self.member_kind == "move" and qe:
                    problems.append("moved-from guard is not empty")
                if self.member_kind == "swap":
                    problems = []
                    if r != 0:
                        problems.append("swap takes/releases protection units")
                    if pe != q0 or qe != p0:
                        problems.append("the pointers of the two guards are not exchanged")
                    if self.cfg.get("slot") and (ev(st.H) != q0 or ev(st.Hq) != p0):
                        problems.append("the pointers are exchanged but the %s slots are not: each guard now points to the object the OTHER guard's slot "
                                        "protects, so resetting one guard withdraws the protection of the object the other still holds" % self.cfg["slot"])
            else:  # throw point (state before the throwing call takes effect)
                if self.cfg.get("slot"):
                    h = ev(st.H)
                    h0 = F if self.is_ctor else ev(Sym("P0"))
                    if r != int(h) - int(h0):
                        problems.append("if this call throws, the guard has given up %+d slot share(s) while its slot pointer is %s" % (r - (int(h) - int(h0)), "still set" if h else "null"))
                    if pe and not h:
                        problems.append("if this call throws, ptr is non-null but no slot protects it")
            if problems:
                desc = "guard %s" % ("non-empty" if p0 else "empty") + (", other guard %s" % ("non-empty" if q0 else "empty") if self.other else "")
                self.violations.append((where, kind, "; ".join(problems) + " [entry: %s]" % (desc or "any")))
                return

    # ---------- path enumeration
    def run(self):
        fn = self.fn
        st0 = St()
        if self.is_ctor:
            st0.P = F
            st0.H = F
            st0.env[Sym("P0")] = F
        self.other_transfers = self.member_kind in ("move",)
        stack = [(fn.entry, st0, {})]
        while stack and self.paths < 4000:
            b, st, visits = stack.pop()
            if st.dead:
                continue
            visits = dict(visits)
            visits[b] = visits.get(b, 0) + 1
            if visits[b] > 2:
                continue
            blk = fn.blocks[b]
            retval = None
            returned = False
            for e in blk["elems"]:
                n = fn.nodes[e]
                if self.may_throw(e) and not self.is_ctor:
                    # (a constructor that throws leaves no object behind; the base sub-object's destructor sees an empty guard)
                    self.throw_points += 1
                    self.check(st, fn.where(e), "throw")
                if n["k"] == "return":
                    k = fn.kids(e)
                    if k and fn.nodes[k[0]].get("v") is not None and fn.nodes[k[0]].get("t") == "bool":
                        retval = bool(fn.nodes[k[0]]["v"])
                    returned = True
                    continue
                self.event(st, e)
            succ = blk["succ"]
            if b == fn.exit or not [s for s in succ if s is not None]:
                if b == fn.exit or returned:
                    self.paths += 1
                    self.check(st, fn.where(), "exit", retval)
                continue
            if returned or (len(succ) == 1 and succ[0] == fn.exit):
                self.paths += 1
                self.check(st, fn.where(blk["elems"][-1]) if blk["elems"] else fn.where(), "exit", retval)
                continue
            if "cond" in blk and len(succ) == 2:
                parent = None
                if blk.get("term") in ("||", "&&"):
                    for x, xn in enumerate(fn.nodes):
                        if xn["k"] == "bin" and xn.get("op") == blk["term"] and fn.kids(x) and fn.kids(x)[0] == blk["cond"]:
                            parent = x
                known_val = self.known_value(st, blk["cond"])
                if known_val is not None:
                    nxt = succ[0] if known_val else succ[1]
                    if nxt is not None:
                        stack.append((nxt, st, visits))
                    continue
                leaf = self.leaf_of(st, blk["cond"])
                val, on_t, on_f = self.cond(st, leaf)
                v = st.val(val) if not isinstance(val, tuple) else val
                neg = False
                if isinstance(v, tuple):
                    neg = True
                    v = st.val(v[1])
                    if isinstance(v, tuple):
                        v = st.new("b")
                        neg = False
                outcomes = []
                if v is T or v is F:
                    outcomes = [((not v) if neg else v, None)]
                else:
                    outcomes = [((not o) if neg else o, o) for o in (T, F)]
                for truth, assign in outcomes:
                    nxt = succ[0] if truth else succ[1]
                    if nxt is None:
                        continue
                    s2 = st.copy() if len(outcomes) > 1 else st
                    if assign is not None:
                        s2.env[v] = assign
                    self._unify(s2, on_t if truth else on_f)
                    if parent is not None:
                        if blk["term"] == "||" and truth:
                            s2.known[parent] = True
                        if blk["term"] == "&&" and not truth:
                            s2.known[parent] = False
                    stack.append((nxt, s2, visits))
                continue
            for s in succ:
                if s is not None:
                    stack.append((s, st.copy(), visits))

    def known_value(self, st, nid):
        """value of a short-circuit condition already decided on this path (or None)"""
        fn = self.fn
        neg = False
        for _ in range(8):
            n = fn.nodes[nid]
            c = fn.kids(nid)
            if n["k"] == "un" and n["op"] == "!" and c:
                neg = not neg
                nid = c[0]
                continue
            if n["k"] == "cast" and c:
                nid = c[0]
                continue
            break
        n = fn.nodes[nid]
        if n["k"] == "bin" and n.get("op") in ("||", "&&") and nid in st.known:
            v = st.known[nid]
            return (not v) if neg else v
        return None

    def leaf_of(self, st, nid):
        """the operand of a (nested) short-circuit condition that this block actually evaluates"""
        fn = self.fn
        n = fn.nodes[nid]
        c = fn.kids(nid)
        if n["k"] == "bin" and n.get("op") in ("||", "&&") and len(c) == 2:
            return self.leaf_of(st, c[1])
        return nid

    @staticmethod
    def _unify(st, pairs):
        for a, b in pairs:
            a, b = st.val(a), st.val(b)
            if a is b or a == b:
                continue
            if isinstance(a, Sym):
                st.env[a] = b
            elif isinstance(b, Sym):
                st.env[b] = a
            elif a != b:
                st.dead = True
        


def emptiness_predicates(ctx, schemes=None, rid="K3.guard-typestate"):
    """sibling agreement: a marked_ptr is 'non-empty' for operator bool when ANY bit (pointer or mark) is set, for `get() != nullptr` only when
    the pointer bits are.  For schemes that count guards (critical-region nesting, region entries) every member must use ONE of the two
    predicates for 'this guard holds a protection unit' - a marked null pointer otherwise enters without leaving or leaves without entering"""
    for scheme, cfg in SCHEMES.items():
        if schemes and scheme not in schemes:
            continue
        units = tuple(cfg.get("enter", ())) + tuple(cfg.get("leave", ()))
        if not units or cfg.get("slot") or cfg.get("refcount"):
            continue
        kinds = {}
        for fn in ctx.facts.fns:
            if not fn.pat.startswith("xenium::reclamation::%s::guard_ptr::" % scheme):
                continue
            acts = [e for e in flow.find(fn, {"k": "call"}) if fn.nodes[e].get("callee", "").split("::")[-1] in units]
            if not acts:
                continue
            for b, blk in fn.blocks.items():
                if "cond" not in blk or b not in fn.live_blocks():
                    continue
                op, leaves = flow._flatten_logical(fn, blk["cond"])
                for atom, pol in leaves:
                    if atom is None or atom < 0:
                        continue
                    kind = None
                    c = flow.eq_cmp(fn, atom)
                    if c is not None and (flow.const_value(fn, c[1]) == 0 or flow.const_value(fn, c[2]) == 0):
                        side = c[2] if flow.const_value(fn, c[1]) == 0 else c[1]
                        if flow.has_src(fn, side, "field:ptr"):
                            kind = "get()!=nullptr" if flow.has_src(fn, side, "call:get") else "==marked_ptr{}"
                    elif c is None and flow.has_src(fn, atom, "field:ptr") and fn.nodes[atom]["k"] in ("call", "member", "cast"):
                        kind = "get()!=nullptr" if flow.has_src(fn, atom, "call:get") else "operator bool"
                    if kind and any(fn.event_reaches(atom, a) or True for a in acts):
                        kinds.setdefault(kind, []).append((fn, atom))
        if not kinds:
            continue
        major = max(kinds, key=lambda k_: len(kinds[k_]))
        for k_, sites in sorted(kinds.items()):
            for fn, atom in sites:
                ctx.check(k_ == major, rid, "%s::guard_ptr#emptiness-predicate@%s" % (scheme, fn.pat.split("::")[-1]) + ("" if k_ == major else "!"),
                          "'guard holds a unit' is tested as %s like in the other members" % k_,
                          "%s tests %s where the other members of %s::guard_ptr test %s: for a marked null pointer (nullptr with a mark) the two disagree, so this "
                          "guard enters the critical region without ever leaving it or leaves without having entered (the nesting counter drifts; an object is "
                          "reclaimed under a live guard of the same thread)" % (fn.pat, k_, scheme, major), fn.where(atom), fn=fn)


def member_kind(fn):
    rec = fn.rec
    if rec.get("copyctor") or rec.get("copyassign"):
        return "copy"
    if rec.get("movector") or rec.get("moveassign"):
        return "move"
    return "other"


def rules(ctx, schemes=None, rid="K3.guard-typestate", rid_throw="K13.guard-exception-safety"):
    ctx.rule(rid, "guard_ptr typestate for every scheme and member (constructors, copy/move, assignments, acquire, acquire_if_equal, reset, reclaim): on every "
                  "path and for every nullness valuation, protection units taken minus released equal the change in 'guard is non-empty' (plus the source "
                  "guard's change for moves); slot pointer set iff ptr non-null (hazard pointers / eras); moved-from guards end empty; "
                  "'return false' only with an empty guard (path-sensitive abstract interpretation, symbolic nullness)")
    ctx.rule(rid_throw, "at every call that can throw (slot allocation with a static strategy) the guard is consistent: shares given up match the slot pointer, "
                        "and a non-null ptr is still protected")
    n = 0
    for scheme, cfg in SCHEMES.items():
        if schemes and scheme not in schemes:
            continue
        for member in MEMBERS:
            pat = R_ + scheme + "::guard_ptr::" + member
            shapes = ctx.facts.shapes(pat)
            if not shapes:
                ctx.broken.append("anchor vanished: %s is not instantiated" % pat)
                continue
            seen_kinds = set()
            for fn in shapes:
                mk = member_kind(fn)
                is_ctor = bool(fn.rec.get("ctor"))
                other = None
                for p in fn.params:
                    if "guard_ptr" in p["t"]:
                        other = p["name"]
                key = (mk, is_ctor, len(fn.params), tuple(p["t"].split("<")[0] for p in fn.params))
                if key in seen_kinds:
                    continue
                seen_kinds.add(key)
                ex = Exec(fn, scheme, cfg, member, is_ctor, other)
                ex.member_kind = mk
                try:
                    ex.run()
                except RecursionError:
                    ctx.broken.append("typestate: recursion limit in %s" % pat)
                    continue
                n += 1
                label = member + ("(copy)" if mk == "copy" else "(move)" if mk == "move" else "") + ("/ctor" if is_ctor and member == "guard_ptr" and mk == "other" else "")
                inst = "%s::guard_ptr::%s" % (scheme, label)
                exit_v = [v for v in ex.violations if v[1] == "exit"]
                throw_v = [v for v in ex.violations if v[1] == "throw"]
                ctx.check(not exit_v, rid, inst, "%d paths / %d exits balanced" % (ex.paths, ex.exits),
                          "%s: %s" % (inst, exit_v[0][2] if exit_v else ""), exit_v[0][0] if exit_v else fn.where(), fn=fn)
                if cfg.get("throws") and ex.throw_points:
                    ctx.check(not throw_v, rid_throw, inst, "%d throw points consistent" % ex.throw_points,
                              "%s: %s" % (inst, throw_v[0][2] if throw_v else ""), throw_v[0][0] if throw_v else fn.where(), fn=fn)
    # swap(): one shape of detail::guard_ptr::swap per scheme (the Derived type is the parameter's type)
    nswap = 0
    for fn in ctx.facts.shapes(R_ + "detail::guard_ptr::swap"):
        ptype = fn.params[0]["t"] if fn.params else ""
        scheme = next((s_ for s_ in SCHEMES if ptype.startswith(R_ + s_ + "::guard_ptr")), None)
        if scheme is None or (schemes and scheme not in schemes):
            continue
        ex = Exec(fn, scheme, SCHEMES[scheme], "swap", False, fn.params[0]["name"])
        ex.member_kind = "swap"

        def resolve(call, scheme=scheme):
            callee = call.get("callee", "")
            sh = ctx.facts.shapes(callee)
            if not sh:
                return None
            if callee.startswith(R_ + "detail::"):
                for c_ in sh:
                    if c_.params and c_.params[0]["t"].startswith(R_ + scheme + "::guard_ptr"):
                        return c_
            return sh[0]
        ex.resolve = resolve
        ex.run()
        nswap += 1
        exit_v = [v for v in ex.violations if v[1] == "exit"]
        ctx.check(not exit_v, rid, "%s::guard_ptr::swap" % scheme, "%d paths: both guards' complete protection state exchanged" % ex.paths,
                  "%s::guard_ptr::swap: %s" % (scheme, exit_v[0][2] if exit_v else ""), exit_v[0][0] if exit_v else fn.where(), fn=fn)
    if nswap < (len(schemes) if schemes else len(SCHEMES)):
        ctx.broken.append("typestate: swap analysed for %d schemes only" % nswap)
    floor = 10 * (len(schemes) if schemes else len(SCHEMES))
    if n < floor:
        ctx.broken.append("typestate: only %d guard members analysed (floor %d)" % (n, floor))
