"""Finite evaluation of pure integer helper functions (utils::next_power_of_two, find_last_bit_set, nikolaev_scq::remap_index ...).

The CFG extracted from the current source is interpreted on chosen integers (rules/evalx.run_until: integer locals, loops bounded by a step
limit); calls to other xenium functions are resolved through the callee pattern recorded by the compiler and interpreted the same way.  No
library code runs: this decides facts about a finite grid of inputs of a side-effect-free function."""
from .evalx import run_until, evalx, Unknown, wrap


def call_pure(facts, pat, args, depth=0, pick=None):
    """value returned by the function with pattern `pat` for the integer arguments `args` (first shape, or the one selected by pick(fn))"""
    if depth > 8:
        raise Unknown("call depth")
    shapes = facts.shapes(pat)
    if pick is not None:
        shapes = [f for f in shapes if pick(f)]
    if not shapes:
        raise Unknown("no function " + pat)
    fn = shapes[0]
    if len(fn.params) != len(args):
        raise Unknown("arity of " + pat)
    env = {}
    for p, a in zip(fn.params, args):
        env[p["name"]] = wrap(a, p.get("t"))
    # callee resolution: every xenium callee that occurs in the body gets an interpreter closure under its leaf name
    for n in fn.nodes:
        if n["k"] == "call" and n.get("callee", "").startswith("xenium::"):
            leaf = n["callee"].split("::")[-1]
            env.setdefault("call:" + leaf, (lambda callee: (lambda *a: call_pure(facts, callee, list(a), depth + 1)))(n["callee"]))
    env2, stop = run_until(fn, env, lambda f, e: f.nodes[e]["k"] == "return", max_steps=5000)
    if stop is None:
        raise Unknown("%s: no return reached" % pat)
    k = fn.kids(stop)
    if not k:
        return None
    return evalx(fn, k[0], env2)
