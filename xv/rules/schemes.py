"""Structural rules for the reclamation schemes (C01, C02, C17, C18).  Each rule is an instance of K2 (order on all paths),
K4 (guarded action) or presence, stated over resolved callees and field declarations."""
from . import flow
from .flow import chain, guarded, present, absent

R = "xenium::reclamation::"
FENCE_SC = {"k": "call", "kind": "fence", "pred": lambda fn, nid: fn.atomic(nid)["orders"] == ["seq_cst"], "desc": "seq_cst fence"}
FENCE_ACQ = {"k": "call", "kind": "fence", "pred": lambda fn, nid: fn.atomic(nid)["orders"][0] in ("acquire", "acq_rel", "seq_cst"), "desc": "acquire fence", "any": True}


def call(name, **kw):
    d = {"k": "call", "callee": name, "desc": name.split("::")[-1] + "()"}
    d.update(kw)
    return d


def is_throw(fn, nid):
    return fn.nodes[nid]["k"] == "throw"


# ---------------------------------------------------------------------------------------------------------------
def hazard_pointer_rules(ctx):
    HP = R + "hazard_pointer::"
    CB = R + "detail::basic_hp_thread_control_block::"
    rid = "HP.protocol"
    ctx.rule(rid, "hazard pointer publish/scan protocol: slot store then seq_cst fence; scan = seq_cst fence, adopt abandoned nodes, gather, "
                  "acquire fence, reclaim against the gathered set; validate-after-protect in acquire/acquire_if_equal")
    # C01.a publication: release store of the slot, then the seq_cst fence
    chain(ctx, rid, CB + "hazard_pointer::set_object",
          [{"k": "call", "field": "value", "op": "store", "desc": "slot store"}, FENCE_SC], label="store<fence",
          why="without the fence after the slot store a concurrent scan can miss the protection (store->load ordering)")
    # C01.a / C01.h scan
    chain(ctx, rid, HP + "thread_data::scan",
          [FENCE_SC, call("adopt_abandoned_retired_nodes"), call("std::for_each", desc="gather loop"), FENCE_ACQ, call("reclaim_nodes")],
          label="scan-order",
          why="fence before reading foreign slots; abandoned nodes must be detached before the gather so they are tested against a "
              "snapshot taken after they were retired; reclaim only after the gather completed")
    present(ctx, rid, HP + "thread_data::scan", call("reclaim_nodes"), minimum=2, label="reclaims-local-and-adopted",
            why="both the local retire list and the adopted nodes go through the protected-pointer test")
    # gather only active blocks: the lambda calls gather_protected_pointers only on the true edge of is_active
    guarded(ctx, "HP.active-gather", HP + "thread_data::scan::(lambda0)::operator()", call("gather_protected_pointers"), call("is_active"), True,
            label="gather|is_active", why="C17.c: control blocks of exited threads must not contribute protections / be read")
    # C01.c destruction is licensed by the protection test
    guarded(ctx, "HP.delete-licensed", HP + "thread_data::reclaim_nodes", call("delete_self"), call("std::binary_search"), False,
            label="delete|!protected", why="a retired node may only be destroyed if no hazard pointer protects it")
    guarded(ctx, "HP.delete-licensed", HP + "thread_data::reclaim_nodes", call("add_retired_node"), call("std::binary_search"), True,
            label="keep|protected", why="a protected node must stay in the retire list (not dropped: C02)")
    # C01.b validate after protect
    for f, lab in (("guard_ptr::acquire", "acquire"), ("guard_ptr::acquire_if_equal", "acquire_if_equal")):
        chain(ctx, "HP.validate-after-protect", HP + f,
              [call("set_object"), {"k": "call", "field": "param:p", "op": "load", "desc": "reload of the source"}], mode="post", label=lab + ":reload",
              why="after publishing the hazard pointer the source must be re-read and compared, otherwise a scan that ran between the "
                  "first load and the publication frees the node")
    _hp_acquire_exit(ctx, HP)
    # C02.c deleter stored before the node becomes visible to scans
    chain(ctx, "HP.retire", HP + "guard_ptr::reclaim", [call("set_deleter"), call("add_retired_node")], label="deleter<retire",
          why="the deleter must be stored before the node enters a retire list")
    chain(ctx, "HP.retire", HP + "guard_ptr::reclaim", [call("guard_ptr::reset"), call("add_retired_node")], label="reset<retire",
          why="the retiring guard must release its own protection first, otherwise its own scan keeps the node forever")
    # C02.a / C17.a thread exit
    chain(ctx, "HP.thread-exit", HP + "thread_data::~thread_data", [call("thread_data::scan"), call("abandon_retired_nodes")], label="scan<abandon")
    _exit_handover(ctx, "HP.thread-exit", HP + "thread_data::~thread_data", "retire_list", call("abandon_retired_nodes"), call("release_entry"))
    # C17.d (re)initialisation of an adopted block
    chain(ctx, "HP.block-init", HP + "thread_data::ensure_has_control_block", [call("acquire_entry"), call("initialize")], label="acquire<initialize",
          why="an adopted control block has a stale free list; it must be rebuilt before the first allocation")
    chain(ctx, "HP.block-init", HP + "thread_data::alloc_hazard_pointer", [call("ensure_has_control_block"), call("alloc_hazard_pointer")], label="ensure<alloc")
    present(ctx, "HP.block-init", CB + "initialize", {"k": "call", "field": "number_of_active_hps", "op": "fetch_add"}, label="count+")
    present(ctx, "HP.block-init", CB + "abandon", {"k": "call", "field": "number_of_active_hps", "op": "fetch_sub"}, label="count-")
    present(ctx, "HP.block-init", CB + "abandon", call("entry::abandon"), label="entry-abandon")
    # C18.c exhaustion is reported, slots are recycled
    guarded(ctx, "HP.slots", CB + "alloc_hazard_pointer", call("need_more_hps"), {"k": "bin", "expr_re": r"^\(result == nullptr\)$", "desc": "result == nullptr"}, True,
            label="need_more|null")
    chain(ctx, "HP.slots", CB + "alloc_hazard_pointer", [{"k": "decl", "expr_re": r"^result = hint$", "desc": "result = hint"}, call("get_link")], label="hint<get_link")
    _throws_only(ctx, "HP.slots", R + "detail::static_hp_thread_control_block::need_more_hps", "bad_hazard_pointer_alloc")
    chain(ctx, "HP.slots", CB + "release_hazard_pointer", [call("set_link"), {"k": "bin", "expr_re": r"^\(hint = hp\)$", "desc": "hint = hp"}], label="relink",
          why="a released slot must be linked back into the free list (slot reuse)")
    chain(ctx, "HP.slots", R + "detail::dynamic_hp_thread_control_block::allocate_new_hazard_pointer_block",
          [{"k": "call", "field": "number_of_active_hps", "op": "fetch_add"}, {"k": "call", "field": "hp_block", "op": "store"}], label="grow")
    chain(ctx, "HP.slots", HP + "guard_ptr::reset", [call("release_hazard_pointer")], label="reset-releases")


def _hp_acquire_exit(ctx, HP):
    """the assignment of the protected pointer in acquire is only reached through the 'unchanged' edge of the comparison"""
    rid = "HP.validate-after-protect"
    for fn in flow._shapes(ctx, HP + "guard_ptr::acquire"):
        # this->ptr = p2 is reached only via the false edge of (p1.get() != p2.get())
        asg = [e for e in flow.find(fn, {"k": "call", "callee": "marked_ptr::operator="}) if fn.field_of(fn.kids(e)[0]).endswith("guard_ptr::ptr")]
        asg += [e for e in flow.find(fn, {"k": "bin"}) if fn.nodes[e]["op"] == "=" and fn.field_of(fn.kids(e)[0]).endswith("guard_ptr::ptr")]
        inst = HP + "guard_ptr::acquire#ptr-assigned-after-compare"
        if not asg:
            ctx.bad(rid, inst, "no assignment to guard_ptr::ptr found in acquire", fn.where(), fn=fn)
            continue
        for a in asg:
            pred = lambda f, nid: f.nodes[nid]["k"] == "bin" and f.nodes[nid]["op"] in ("!=", "==") and ".get()" in f.expr(nid)
            ok, path, n = flow.only_via(fn, a, pred, False)
            # polarity False means the != comparison was false (pointers equal)
            ctx.check(ok and n > 0, rid, inst, "ptr assigned only when the reloaded pointer equals the protected one",
                      "guard_ptr::ptr is assigned on a path that does not pass the 'pointer unchanged' edge of the re-validation", fn.where(a), fn=fn,
                      path=flow.describe_path(fn, path))
    for fn in flow._shapes(ctx, HP + "guard_ptr::acquire_if_equal"):
        inst = HP + "guard_ptr::acquire_if_equal#true-only-if-unchanged"
        rets = [e for e in flow.find(fn, {"k": "return"}) if fn.kids(e) and fn.nodes[fn.kids(e)[0]].get("v") == 1]
        if not rets:
            ctx.bad(rid, inst, "no 'return true' found", fn.where(), fn=fn)
        for r in rets:
            pred = lambda f, nid: f.nodes[nid]["k"] == "call" and f.nodes[nid].get("callee", "").endswith("operator!=") and "ptr" in f.expr(nid)
            ok, path, n = flow.only_via(fn, r, pred, False)
            ctx.check(ok and n > 0, rid, inst, "'return true' only when the reloaded pointer equals the first load",
                      "'return true' reachable without the re-validation comparison being false", fn.where(r), fn=fn, path=flow.describe_path(fn, path))


def _exit_handover(ctx, rid, pat, list_field, handover, release):
    """C02.a/C17.a: in a thread_data destructor the control block is released on every path that holds one, and the hand-over
    call exists and precedes the release"""
    for fn in flow._shapes(ctx, pat):
        h = flow.find(fn, handover)
        r = flow.find(fn, release)
        inst = pat + "#handover<release"
        if not h or not r:
            ctx.bad(rid, inst, "thread exit must hand over pending retired nodes (%s) and release the control block (%s); found %d / %d" % (
                flow.mdesc(handover), flow.mdesc(release), len(h), len(r)), fn.where(), fn=fn)
            continue
        ok = all(not fn.event_reaches(x, y) for x in r for y in h)
        ctx.check(ok, rid, inst, "hand-over precedes release of the control block", "control block is released before the retired nodes are handed over",
                  fn.where(r[0]), fn=fn)


def _throws_only(ctx, rid, pat, exc):
    for fn in flow._shapes(ctx, pat):
        th = flow.find(fn, {"k": "throw"})
        rets = flow.find(fn, {"k": "return"})
        inst = pat + "#throws-" + exc
        good = bool(th) and all(exc in fn.nodes[t].get("what", "") for t in th) and not rets
        # the exit must not be reachable other than through the throw
        if good:
            pos = fn.pos()
            removed = {pos[t][0] for t in th}
            good = fn.exit not in fn.reachable_blocks(removed_blocks=removed) or all(pos[t][0] in fn.dominators().get(fn.exit, ()) for t in th)
        ctx.check(good, rid, inst, "every path throws " + exc, "static allocation strategy must report exhaustion by throwing %s on every path" % exc,
                  fn.where(), fn=fn)


# ---------------------------------------------------------------------------------------------------------------
def hazard_eras_rules(ctx):
    HE = R + "hazard_eras::"
    CB = R + "detail::basic_he_thread_control_block::"
    rid = "HE.protocol"
    ctx.rule(rid, "hazard eras publish/scan protocol")
    chain(ctx, rid, CB + "hazard_era::set_era", [{"k": "call", "field": "value", "op": "store", "desc": "slot store"}, FENCE_SC], label="store<fence")
    chain(ctx, rid, HE + "thread_data::scan",
          [FENCE_SC, call("adopt_abandoned_retired_nodes"), call("std::for_each", desc="gather loop"), FENCE_ACQ, call("reclaim_nodes")], label="scan-order")
    present(ctx, rid, HE + "thread_data::scan", call("reclaim_nodes"), minimum=2, label="reclaims-local-and-adopted")
    guarded(ctx, "HE.active-gather", HE + "thread_data::scan::(lambda0)::operator()", call("gather_protected_eras"), call("is_active"), True, label="gather|is_active")
    # retirement era is taken (release RMW on the clock) before the node enters the retire list; deleter before
    chain(ctx, "HE.retire", HE + "guard_ptr::reclaim", [call("set_deleter"), {"k": "call", "field": "era_clock", "op": "fetch_add"}, call("add_retired_node")],
          label="deleter<era<retire", why="retirement era must be stamped before the node can be examined by a scan")
    chain(ctx, "HE.retire", HE + "guard_ptr::reclaim", [call("guard_ptr::reset"), call("add_retired_node")], label="reset<retire")
    # C01.c: delete only if no protected era lies in [construction, retirement]
    for fn in flow._shapes(ctx, HE + "thread_data::reclaim_nodes"):
        inst = HE + "thread_data::reclaim_nodes#delete|no-era-in-lifetime"
        dels = flow.find(fn, call("delete_self"))
        keeps = flow.find(fn, call("add_retired_node"))
        lb = flow.find(fn, call("std::lower_bound"))
        ok = bool(dels) and bool(keeps) and bool(lb)
        if ok:
            # lower_bound is keyed by the construction era, the second test compares with the retirement era
            ok = any("construction_era" in fn.expr(x) for x in lb)
            cmp_ret = lambda f, nid: f.nodes[nid]["k"] in ("bin", "call") and "retirement_era" in f.expr(nid) and (
                f.nodes[nid].get("op") in (">", "<", ">=", "<=") or "operator" in f.nodes[nid].get("callee", ""))
            end_cmp = lambda f, nid: "end()" in f.expr(nid) and ("==" in f.expr(nid) or "!=" in f.expr(nid))
            for d in dels:
                # delete must not be reachable when (it != end) and !(*it > retirement_era)
                o1, p1, n1 = flow.only_via(fn, d, lambda f, nid: cmp_ret(f, nid) or end_cmp(f, nid), True)
                ok = ok and o1 and n1 >= 2
            for k in keeps:
                o2, p2, n2 = flow.only_via(fn, k, cmp_ret, False)
                ok = ok and o2
        ctx.check(ok, "HE.delete-licensed", inst, "delete_self only if lower_bound(construction_era) is end or > retirement_era",
                  "a retired node may only be destroyed if no protected era lies within [construction_era, retirement_era]", fn.where(), fn=fn)
    # thread exit
    chain(ctx, "HE.thread-exit", HE + "thread_data::~thread_data", [call("thread_data::scan"), call("abandon_retired_nodes")], label="scan<abandon")
    _exit_handover(ctx, "HE.thread-exit", HE + "thread_data::~thread_data", "retire_list", call("abandon_retired_nodes"), call("release_entry"))
    chain(ctx, "HE.block-init", HE + "thread_data::ensure_has_control_block", [call("acquire_inactive_entry"), call("initialize"), call("activate")],
          label="inactive<initialize<activate", why="the block must not be visible as active to scans before its slots are re-initialised")
    chain(ctx, "HE.block-init", HE + "thread_data::alloc_hazard_era", [call("ensure_has_control_block"), call("alloc_hazard_era")], label="ensure<alloc")
    present(ctx, "HE.block-init", CB + "initialize", {"k": "call", "field": "number_of_active_hes", "op": "fetch_add"}, label="count+")
    present(ctx, "HE.block-init", CB + "abandon", {"k": "call", "field": "number_of_active_hes", "op": "fetch_sub"}, label="count-")
    present(ctx, "HE.block-init", CB + "abandon", call("entry::abandon"), label="entry-abandon")
    # slots
    guarded(ctx, "HE.slots", CB + "alloc_hazard_era", call("need_more_hes"), {"k": "bin", "expr_re": r"^\(result == nullptr\)$", "desc": "result == nullptr"}, True,
            label="need_more|null")
    chain(ctx, "HE.slots", CB + "alloc_hazard_era", [call("get_link"), call("set_era"), call("hazard_era::add_guard", expr_re=r"^result")], mode="dom", label="link<era<guard")
    _throws_only(ctx, "HE.slots", R + "detail::static_he_thread_control_block::need_more_hes", "bad_hazard_era_alloc")
    guarded(ctx, "HE.slots", CB + "release_hazard_era", call("set_link"), {"k": "bin", "expr_re": r"release_guard\(\) == 0", "desc": "release_guard() == 0"}, True,
            label="free|last-guard", why="a hazard era slot is shared by guards of the same era; it may be recycled only when the last guard leaves")
    chain(ctx, "HE.slots", HE + "guard_ptr::reset", [call("release_hazard_era")], label="reset-releases")
    # C01.b the era that decides the return follows the load of the pointer
    for f in ("guard_ptr::acquire", "guard_ptr::acquire_if_equal"):
        chain(ctx, "HE.era-after-load", HE + f, [{"k": "call", "field": "param:p", "op": "load", "desc": "load of the source"},
                                                 {"k": "call", "field": "era_clock", "op": "load", "desc": "era_clock load"}], label=f.split("::")[-1] + ":load<era")
    # F12: a new hazard era is allocated before the shared one is given up (exception safety)
    for f in ("guard_ptr::acquire", "guard_ptr::acquire_if_equal"):
        for fn in flow._shapes(ctx, HE + f):
            inst = HE + f + "#alloc-before-release_guard"
            rel = flow.find(fn, call("hazard_era::release_guard"))
            alloc = flow.find(fn, call("alloc_hazard_era"))
            if not alloc:
                ctx.bad("HE.exception-safety", inst, "no alloc_hazard_era call", fn.where(), fn=fn)
                continue
            # no path release_guard -> alloc_hazard_era (which may throw) within one iteration: alloc must dominate release
            ok = all(any(fn.before(a, r) for a in alloc) for r in rel)
            ctx.check(ok, "HE.exception-safety", inst, "alloc_hazard_era (may throw) dominates every release_guard",
                      "release_guard() is executed before the throwing alloc_hazard_era(): if the static pool is exhausted the guard keeps a "
                      "reference that is no longer counted (another guard's protection is revoked by a later reset)", fn.where(rel[0]) if rel else fn.where(), fn=fn)


# ---------------------------------------------------------------------------------------------------------------
def thread_block_list_rules(ctx):
    T = R + "detail::thread_block_list::"
    rid = "TBL.adopt"
    ctx.rule(rid, "control blocks of exited threads are re-used: adoption loop before allocation, acquire-CAS from free, release-store to free")
    # C17.b: new T() only after the adoption loop failed
    for fn in flow._shapes(ctx, T + "adopt_or_create_entry"):
        inst = T + "adopt_or_create_entry#adopt-before-new"
        news = flow.find(fn, {"k": "new"})
        tries = flow.find(fn, call("try_adopt"))
        if not news or not tries:
            ctx.bad(rid, inst, "adopt_or_create_entry must try to adopt (%d) before allocating (%d)" % (len(tries), len(news)), fn.where(), fn=fn)
            continue
        # the allocation is only reached via the false edge of the loop condition `result` (list exhausted)
        loop = lambda f, nid: f.nodes[nid]["k"] == "ref" and f.nodes[nid].get("name") == "result"
        ok, path, n = flow.only_via(fn, news[0], loop, False)
        ok2 = all(fn.event_reaches(t, news[0]) for t in tries) and not any(fn.before(news[0], t) for t in tries)
        ctx.check(ok and n > 0 and ok2, rid, inst, "allocation only after the adoption loop ran off the end of the list",
                  "a new control block is allocated without first trying to adopt every free block (bookkeeping grows with threads ever created)",
                  fn.where(news[0]), fn=fn, path=flow.describe_path(fn, path))
        rets = [e for e in flow.find(fn, {"k": "return"})]
        # the early return inside the loop is licensed by try_adopt being true
        inner = [r for r in rets if not fn.before(news[0], r)]
        for r in inner:
            ok3, p3, n3 = flow.only_via(fn, r, lambda f, nid: flow.node_matches(f, nid, call("try_adopt")), True)
            ctx.check(ok3 and n3 > 0, rid, T + "adopt_or_create_entry#return|adopted", "early return only with an adopted block",
                      "a block is returned without a successful try_adopt (two threads could share one control block)", fn.where(r), fn=fn)
    chain(ctx, rid, T + "adopt_or_create_entry", [{"k": "new"}, call("add_entry")], label="new<add_entry")
    guarded(ctx, rid, T + "entry::try_adopt", {"k": "call", "field": "state", "kind": "cas"}, {"k": "bin", "expr_re": r"state\.load\(.*\) == ", "desc": "state == free"}, True,
            label="cas|free")
    chain(ctx, rid, T + "release_entry", [call("abandon")], label="release=abandon")
    present(ctx, rid, T + "entry::abandon", {"k": "call", "field": "state", "op": "store"}, label="store-free")
