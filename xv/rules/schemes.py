"""Structural rules for the reclamation schemes (C01, C02, C17, C18).  Each rule is an instance of K2 (order on all paths),
K4 (guarded action) or presence, stated over resolved callees and field declarations."""
import re
from . import flow
from .flow import chain, guarded, present, absent

R = "xenium::reclamation::"
FENCE_SC = {"k": "call", "kind": "fence", "pred": lambda fn, nid: fn.atomic(nid)["orders"] == ["seq_cst"], "desc": "seq_cst fence"}
FENCE_ACQ = {"k": "call", "kind": "fence", "pred": lambda fn, nid: fn.atomic(nid)["orders"][0] in ("acquire", "acq_rel", "seq_cst"), "desc": "acquire fence", "any": True}


def call(name, **kw):
    d = {"k": "call", "callee": name, "desc": name.split("::")[-1] + "()"}
    d.update(kw)
    return d


def is_throw(fn, nid):
    return fn.nodes[nid]["k"] == "throw"


# ---------------------------------------------------------------------------------------------------------------
def hazard_pointer_rules(ctx):
    HP = R + "hazard_pointer::"
    CB = R + "detail::basic_hp_thread_control_block::"
    rid = "HP.protocol"
    ctx.rule(rid, "hazard pointer publish/scan protocol: slot store then seq_cst fence; scan = seq_cst fence, adopt abandoned nodes, gather, "
                  "acquire fence, reclaim against the gathered set; validate-after-protect in acquire/acquire_if_equal")
    # C01.a publication: release store of the slot, then the seq_cst fence
    chain(ctx, rid, CB + "hazard_pointer::set_object",
          [{"k": "call", "field": "value", "op": "store", "desc": "slot store"}, FENCE_SC], label="store<fence",
          why="without the fence after the slot store a concurrent scan can miss the protection (store->load ordering)")
    # C01.a / C01.h scan
    chain(ctx, rid, HP + "thread_data::scan",
          [FENCE_SC, call("adopt_abandoned_retired_nodes"), _gather_step(ctx, HP + "thread_data::scan", "gather_protected_pointers"), FENCE_ACQ, call("reclaim_nodes")],
          label="scan-order",
          why="fence before reading foreign slots; abandoned nodes must be detached before the gather so they are tested against a "
              "snapshot taken after they were retired; reclaim only after the gather completed")
    present(ctx, rid, HP + "thread_data::scan", call("reclaim_nodes"), minimum=2, label="reclaims-local-and-adopted",
            why="both the local retire list and the adopted nodes go through the protected-pointer test")
    # gather only active blocks: the lambda calls gather_protected_pointers only on the true edge of is_active
    guarded(ctx, "HP.active-gather", HP + "thread_data::scan::(lambda0)::operator()", call("gather_protected_pointers"), call("is_active"), True,
            label="gather|is_active", why="C17.c: control blocks of exited threads must not contribute protections / be read")
    # C01.c destruction is licensed by the protection test
    guarded(ctx, "HP.delete-licensed", HP + "thread_data::reclaim_nodes", call("delete_self"), call("std::binary_search"), False,
            label="delete|!protected", why="a retired node may only be destroyed if no hazard pointer protects it")
    guarded(ctx, "HP.delete-licensed", HP + "thread_data::reclaim_nodes", call("add_retired_node"), call("std::binary_search"), True,
            label="keep|protected", why="a protected node must stay in the retire list (not dropped: C02)")
    for fn in flow._shapes(ctx, CB + "hazard_pointer::try_get_object"):
        for r in [r for r in flow.find(fn, {"k": "return"}) if fn.kids(r) and fn.nodes[fn.kids(r)[0]].get("v") == 1]:
            ok, pth, n = flow.only_via(fn, r, lambda f, nid: f.nodes[nid]["k"] == "bin" and f.nodes[nid]["op"] == "==" and "call:mark" in flow.srcs(f, nid)
                                       and any(f.nodes[k].get("v") == 0 for k in f.kids(nid)), True)
            ctx.check(ok and n > 0, "HP.active-gather", CB + "hazard_pointer::try_get_object#object|not-a-link", "a slot contributes a protection only if it holds an object, not a free-list link",
                      "try_get_object reports a free-list link as a protected object (or vice versa): real protections are ignored by scans", fn.where(r), fn=fn)
    # C01.b validate after protect
    for f, lab in (("guard_ptr::acquire", "acquire"), ("guard_ptr::acquire_if_equal", "acquire_if_equal")):
        chain(ctx, "HP.validate-after-protect", HP + f,
              [call("set_object"), {"k": "call", "field": "param:p", "op": "load", "desc": "reload of the source"}], mode="post", label=lab + ":reload",
              why="after publishing the hazard pointer the source must be re-read and compared, otherwise a scan that ran between the "
                  "first load and the publication frees the node")
    _hp_acquire_exit(ctx, HP)
    # C02.c deleter stored before the node becomes visible to scans
    chain(ctx, "HP.retire", HP + "guard_ptr::reclaim", [call("set_deleter"), call("add_retired_node")], label="deleter<retire",
          why="the deleter must be stored before the node enters a retire list")
    chain(ctx, "HP.retire", HP + "guard_ptr::reclaim", [call("guard_ptr::reset"), call("add_retired_node")], label="reset<retire",
          why="the retiring guard must release its own protection first, otherwise its own scan keeps the node forever")
    # C02.a / C17.a thread exit
    chain(ctx, "HP.thread-exit", HP + "thread_data::~thread_data", [call("thread_data::scan"), call("abandon_retired_nodes")], label="scan<abandon")
    _exit_handover(ctx, "HP.thread-exit", HP + "thread_data::~thread_data", "retire_list", call("abandon_retired_nodes"), call("release_entry"))
    _handover_unless_empty(ctx, "HP.thread-exit", HP + "thread_data::~thread_data", "retire_list", call("abandon_retired_nodes"))
    # C17.d (re)initialisation of an adopted block
    chain(ctx, "HP.block-init", HP + "thread_data::ensure_has_control_block", [call("acquire_entry"), call("initialize")], label="acquire<initialize",
          why="an adopted control block has a stale free list; it must be rebuilt before the first allocation")
    chain(ctx, "HP.block-init", HP + "thread_data::alloc_hazard_pointer", [call("ensure_has_control_block"), call("alloc_hazard_pointer")], label="ensure<alloc")
    present(ctx, "HP.block-init", CB + "initialize", {"k": "call", "field": "number_of_active_hps", "op": "fetch_add"}, label="count+")
    present(ctx, "HP.block-init", CB + "abandon", {"k": "call", "field": "number_of_active_hps", "op": "fetch_sub"}, label="count-")
    present(ctx, "HP.block-init", CB + "abandon", call("entry::abandon"), label="entry-abandon")
    _counter_balance(ctx, "HP.block-init", CB, "number_of_active_hps")
    # the free list of an adopted block is rebuilt over ALL blocks of the dynamic strategy
    DB = R + "detail::dynamic_hp_thread_control_block::"
    present(ctx, "HP.block-init", DB + "initialize_next_block", call("initialize_block"), label="rebuilds-first-extra-block",
            why="an adopted control block keeps the previous owner's stale slot links in its dynamically allocated blocks")
    present(ctx, "HP.block-init", DB + "hazard_pointer_block::initialize_next_block", call("initialize_block"), label="rebuilds-following-blocks",
            why="every dynamically allocated block must be re-linked, otherwise the rebuilt free list loops back into slots that are handed out")
    present(ctx, "HP.block-init", CB + "initialize_block", call("initialize_next_block"), label="chains-to-next-block")
    present(ctx, "HP.block-init", CB + "initialize", call("initialize_block"), label="initialize-rebuilds")
    # C18.c exhaustion is reported, slots are recycled
    guarded(ctx, "HP.slots", CB + "alloc_hazard_pointer", call("need_more_hps"), {"want": flow.null_want(lambda f, x: flow.has_src(f, x, "param#0")), "desc": "hint == nullptr"}, True,
            label="need_more|null")
    present(ctx, "HP.slots", CB + "alloc_hazard_pointer", call("get_link"), label="pops-free-list")
    _throws_only(ctx, "HP.slots", R + "detail::static_hp_thread_control_block::need_more_hps", "bad_hazard_pointer_alloc")
    chain(ctx, "HP.slots", CB + "release_hazard_pointer", [call("set_link"), {"k": "bin", "pred": lambda fn, nid: fn.nodes[nid].get("op") == "=" and all(fn.nodes[k]["k"] == "ref" and fn.nodes[k].get("dk") == "param" for k in fn.kids(nid)),
                              "desc": "hint = released slot"}], label="relink",
          why="a released slot must be linked back into the free list (slot reuse)")
    chain(ctx, "HP.slots", R + "detail::dynamic_hp_thread_control_block::allocate_new_hazard_pointer_block",
          [{"k": "call", "field": "number_of_active_hps", "op": "fetch_add"}, {"k": "call", "field": "hp_block", "op": "store"}], label="grow")
    chain(ctx, "HP.slots", HP + "guard_ptr::reset", [call("release_hazard_pointer")], label="reset-releases")


def _counter_balance(ctx, rid, CB, field):
    """abandon() gives back exactly what initialize() registered (same amount expression)"""
    adds, subs = [], []
    for fn in flow._shapes(ctx, CB + "initialize"):
        adds += [(fn, e) for e in flow.find(fn, {"k": "call", "field": field, "op": "fetch_add"})]
    for fn in flow._shapes(ctx, CB + "abandon"):
        subs += [(fn, e) for e in flow.find(fn, {"k": "call", "field": field, "op": "fetch_sub"})]
    if not adds or not subs:
        return
    a_txt = {f.expr(f.kids(e)[1]) for f, e in adds}
    for f, e in subs:
        t = f.expr(f.kids(e)[1])
        ctx.check(t in a_txt, rid, CB + "abandon#gives-back-what-initialize-registered", "abandon subtracts %s, initialize adds %s" % (t, sorted(a_txt)),
                  "abandon() subtracts %s from %s but initialize() adds %s: with the dynamic strategy a block that grew is re-registered with its full size on every "
                  "adoption and gives back less on exit - the active-slot count (and with it the scan threshold) grows with the number of threads ever created" % (
                      t, field, sorted(a_txt)), f.where(e), fn=f)


def _hp_acquire_exit(ctx, HP):
    """the assignment of the protected pointer in acquire is only reached through the 'unchanged' edge of the comparison"""
    rid = "HP.validate-after-protect"
    for fn in flow._shapes(ctx, HP + "guard_ptr::acquire"):
        # this->ptr = p2 is reached only via the false edge of (p1.get() != p2.get())
        asg = [e for e in flow.find(fn, {"k": "call", "callee": "marked_ptr::operator="}) if fn.field_of(fn.kids(e)[0]).endswith("guard_ptr::ptr")]
        asg += [e for e in flow.find(fn, {"k": "bin"}) if fn.nodes[e]["op"] == "=" and fn.field_of(fn.kids(e)[0]).endswith("guard_ptr::ptr")]
        inst = HP + "guard_ptr::acquire#ptr-assigned-after-compare"
        if not asg:
            ctx.bad(rid, inst, "no assignment to guard_ptr::ptr found in acquire", fn.where(), fn=fn)
            continue
        for a in asg:
            # the re-validation: an (in)equality between two values that both stem from loads of the source pointer, taken as 'equal'
            ok, path, n = flow.only_via_want(fn, a, flow.equal_want(lambda f, x: flow.has_src(f, x, "load:param#0")))
            ctx.check(ok and n > 0, rid, inst, "ptr assigned only when the reloaded pointer equals the protected one",
                      "guard_ptr::ptr is assigned on a path that does not pass the 'pointer unchanged' edge of the re-validation", fn.where(a), fn=fn,
                      path=flow.describe_path(fn, path))
    for fn in flow._shapes(ctx, HP + "guard_ptr::acquire_if_equal"):
        inst = HP + "guard_ptr::acquire_if_equal#true-only-if-unchanged"
        rets = [e for e in flow.find(fn, {"k": "return"}) if fn.kids(e) and fn.nodes[fn.kids(e)[0]].get("v") == 1]
        if not rets:
            ctx.bad(rid, inst, "no 'return true' found", fn.where(), fn=fn)
        for r in rets:
            # the re-validation compares the reloaded pointer (kept in guard_ptr::ptr or a local) with the first load of the source
            ok, path, n = flow.only_via_want(fn, r, flow.equal_want(lambda f, x: flow.has_src(f, x, "load:param#0") or flow.has_src(f, x, "field:ptr")))
            ctx.check(ok and n > 0, rid, inst, "'return true' only when the reloaded pointer equals the first load",
                      "'return true' reachable without the re-validation comparison being false", fn.where(r), fn=fn, path=flow.describe_path(fn, path))


def _handover_unless_empty(ctx, rid, pat, list_leaf, handover):
    """at thread exit the pending retired nodes are handed over unless there are none: every path through the destructor passes the hand-over
    call, or takes the 'list is empty' edge of a null test of the list head, or the 'no control block' edge (such a thread never retired anything).
    A threshold (as used when a live thread merely trims its list) is not such an edge - nodes below it would die with the thread."""
    for fn in flow._shapes(ctx, pat):
        hs = flow.find(fn, handover)
        if not hs:
            continue          # reported by the hand-over rule itself
        empty = flow.null_want(lambda f, x: flow.has_src(f, x, "field:" + list_leaf) or flow.has_src(f, x, "field:control_block"))
        lic, _n = flow.licensed_edges(fn, empty)
        blocked = {fn.pos()[h][0] for h in hs if h in fn.pos()}
        leak = flow._path(fn, fn.entry, fn.exit, lic, blocked) if fn.entry not in blocked else None
        ctx.check(leak is None, rid, pat + "#handover-unless-empty", "the hand-over is skipped only when the retire list is empty",
                  "the thread_data destructor can skip the hand-over of its retired nodes although the list is not empty (the skipping condition is not the emptiness of "
                  "'%s'): those nodes die with the thread and are never destroyed" % list_leaf, fn.where(hs[0]), fn=fn, path=flow.describe_path(fn, leak or []))


def _exit_handover(ctx, rid, pat, list_field, handover, release):
    """C02.a/C17.a: in a thread_data destructor the control block is released on every path that holds one, and the hand-over
    call exists and precedes the release"""
    for fn in flow._shapes(ctx, pat):
        h = flow.find(fn, handover)
        r = flow.find(fn, release)
        inst = pat + "#handover<release"
        if not h or not r:
            ctx.bad(rid, inst, "thread exit must hand over pending retired nodes (%s) and release the control block (%s); found %d / %d" % (
                flow.mdesc(handover), flow.mdesc(release), len(h), len(r)), fn.where(), fn=fn)
            continue
        ok = all(not fn.event_reaches(x, y) for x in r for y in h)
        ctx.check(ok, rid, inst, "hand-over precedes release of the control block", "control block is released before the retired nodes are handed over",
                  fn.where(r[0]), fn=fn)
        # the control block is released on EVERY path that holds one: the function exit is reached without passing the release only through the
        # "there is no control block" edge
        finfo = {}
        removed, n_atoms = flow.licensed_edges(fn, flow.null_want(lambda f, x: flow.has_src(f, x, "field:control_block")), finfo)
        rel_blocks = {fn.pos()[x][0] for x in r if x in fn.pos()}
        exits = [b for b in fn.live_blocks() if not [s_ for s_ in fn.blocks[b]["succ"] if s_ is not None]]
        leak = None
        for xb in exits:
            pth = flow._path(fn, fn.entry, xb, removed, rel_blocks)
            if pth is not None:
                leak = pth
                break
        ctx.check(leak is None, rid, pat + "#release-on-every-path-with-block", "every exit without release_entry is behind the 'no control block' edge",
                  "the destructor can return without releasing the thread's control block although it holds one: the block stays 'active' for ever, is never "
                  "adopted by a later thread, and the list every scan walks grows with the number of threads ever created", fn.where(r[0]), fn=fn,
                  path=flow.describe_path(fn, leak) if leak else None)


def _throws_only(ctx, rid, pat, exc):
    for fn in flow._shapes(ctx, pat):
        th = flow.find(fn, {"k": "throw"})
        rets = flow.find(fn, {"k": "return"})
        inst = pat + "#throws-" + exc
        good = bool(th) and all(exc in fn.nodes[t].get("what", "") for t in th) and not rets
        # the exit must not be reachable other than through the throw
        if good:
            pos = fn.pos()
            removed = {pos[t][0] for t in th}
            good = fn.exit not in fn.reachable_blocks(removed_blocks=removed) or all(pos[t][0] in fn.dominators().get(fn.exit, ()) for t in th)
        ctx.check(good, rid, inst, "every path throws " + exc, "static allocation strategy must report exhaustion by throwing %s on every path" % exc,
                  fn.where(), fn=fn)


# ---------------------------------------------------------------------------------------------------------------
def hazard_eras_rules(ctx):
    HE = R + "hazard_eras::"
    CB = R + "detail::basic_he_thread_control_block::"
    rid = "HE.protocol"
    ctx.rule(rid, "hazard eras publish/scan protocol")
    chain(ctx, rid, CB + "hazard_era::set_era", [{"k": "call", "field": "value", "op": "store", "desc": "slot store"}, FENCE_SC], label="store<fence")
    chain(ctx, rid, HE + "thread_data::scan",
          [FENCE_SC, call("adopt_abandoned_retired_nodes"), _gather_step(ctx, HE + "thread_data::scan", "gather_protected_eras"), FENCE_ACQ, call("reclaim_nodes")], label="scan-order")
    present(ctx, rid, HE + "thread_data::scan", call("reclaim_nodes"), minimum=2, label="reclaims-local-and-adopted")
    guarded(ctx, "HE.active-gather", HE + "thread_data::scan::(lambda0)::operator()", call("gather_protected_eras"), call("is_active"), True, label="gather|is_active")
    for fn in flow._shapes(ctx, CB + "hazard_era::try_get_era"):
        for r in [r for r in flow.find(fn, {"k": "return"}) if fn.kids(r) and fn.nodes[fn.kids(r)[0]].get("v") == 1]:
            ok, pth, n = flow.only_via(fn, r, lambda f, nid: f.nodes[nid]["k"] == "bin" and f.nodes[nid]["op"] == "==" and "call:mark" in flow.srcs(f, nid)
                                       and any(f.nodes[k].get("v") == 0 for k in f.kids(nid)), True)
            ctx.check(ok and n > 0, "HE.active-gather", CB + "hazard_era::try_get_era#era|not-a-link", "a slot contributes an era only if it holds an era, not a free-list link",
                      "try_get_era reports a free-list link as a protected era (or ignores real eras)", fn.where(r), fn=fn)
    # retirement era is taken (release RMW on the clock) before the node enters the retire list; deleter before
    chain(ctx, "HE.retire", HE + "guard_ptr::reclaim", [call("set_deleter"), {"k": "call", "field": "era_clock", "op": "fetch_add"}, call("add_retired_node")],
          label="deleter<era<retire", why="retirement era must be stamped before the node can be examined by a scan")
    chain(ctx, "HE.retire", HE + "guard_ptr::reclaim", [call("guard_ptr::reset"), call("add_retired_node")], label="reset<retire")
    # C01.c: delete only if no protected era lies in [construction, retirement]
    for fn in flow._shapes(ctx, HE + "thread_data::reclaim_nodes"):
        inst = HE + "thread_data::reclaim_nodes#delete|no-era-in-lifetime"
        dels = flow.find(fn, call("delete_self"))
        keeps = flow.find(fn, call("add_retired_node"))
        lb = flow.find(fn, call("std::lower_bound"))
        ok = bool(dels) and bool(keeps) and bool(lb)
        if ok:
            # lower_bound is keyed by the construction era, the second test compares with the retirement era
            ok = any("construction_era" in fn.expr(x) for x in lb)
            cmp_ret = lambda f, nid: f.nodes[nid]["k"] in ("bin", "call") and "retirement_era" in f.expr(nid) and (
                f.nodes[nid].get("op") in (">", "<", ">=", "<=") or "operator" in f.nodes[nid].get("callee", ""))
            end_cmp = lambda f, nid: "end()" in f.expr(nid) and ("==" in f.expr(nid) or "!=" in f.expr(nid))
            for d in dels:
                # delete must not be reachable when (it != end) and !(*it > retirement_era)
                o1, p1, n1 = flow.only_via(fn, d, lambda f, nid: cmp_ret(f, nid) or end_cmp(f, nid), True)
                ok = ok and o1 and n1 >= 2
            for k in keeps:
                o2, p2, n2 = flow.only_via(fn, k, cmp_ret, False)
                ok = ok and o2
        ctx.check(ok, "HE.delete-licensed", inst, "delete_self only if lower_bound(construction_era) is end or > retirement_era",
                  "a retired node may only be destroyed if no protected era lies within [construction_era, retirement_era]", fn.where(), fn=fn)
    # thread exit
    chain(ctx, "HE.thread-exit", HE + "thread_data::~thread_data", [call("thread_data::scan"), call("abandon_retired_nodes")], label="scan<abandon")
    _exit_handover(ctx, "HE.thread-exit", HE + "thread_data::~thread_data", "retire_list", call("abandon_retired_nodes"), call("release_entry"))
    _handover_unless_empty(ctx, "HE.thread-exit", HE + "thread_data::~thread_data", "retire_list", call("abandon_retired_nodes"))
    chain(ctx, "HE.block-init", HE + "thread_data::ensure_has_control_block", [call("acquire_inactive_entry"), call("initialize"), call("activate")],
          label="inactive<initialize<activate", why="the block must not be visible as active to scans before its slots are re-initialised")
    chain(ctx, "HE.block-init", HE + "thread_data::alloc_hazard_era", [call("ensure_has_control_block"), call("alloc_hazard_era")], label="ensure<alloc")
    present(ctx, "HE.block-init", CB + "initialize", {"k": "call", "field": "number_of_active_hes", "op": "fetch_add"}, label="count+")
    present(ctx, "HE.block-init", CB + "abandon", {"k": "call", "field": "number_of_active_hes", "op": "fetch_sub"}, label="count-")
    present(ctx, "HE.block-init", CB + "abandon", call("entry::abandon"), label="entry-abandon")
    _counter_balance(ctx, "HE.block-init", CB, "number_of_active_hes")
    DB = R + "detail::dynamic_he_thread_control_block::"
    present(ctx, "HE.block-init", DB + "initialize_next_block", call("initialize_block"), label="rebuilds-first-extra-block")
    present(ctx, "HE.block-init", DB + "hazard_eras_block::initialize_next_block", call("initialize_block"), label="rebuilds-following-blocks")
    present(ctx, "HE.block-init", CB + "initialize_block", call("initialize_next_block"), label="chains-to-next-block")
    present(ctx, "HE.block-init", CB + "initialize", call("initialize_block"), label="initialize-rebuilds")
    # the sharing cache (last_hazard_era, last_era) is one datum: it is updated only after the last call that can throw
    for fn in flow._shapes(ctx, CB + "alloc_hazard_era"):
        thr = flow.find(fn, call("need_more_hes"))
        asg = [e for b, i, e, n in fn.events() if n["k"] == "bin" and n["op"] == "=" and fn.field_of(fn.kids(e)[0]).split("::")[-1] in ("last_era", "last_hazard_era")]
        inst = CB + "alloc_hazard_era#cache-updated-after-throwing-call"
        names = {fn.field_of(fn.kids(e)[0]).split("::")[-1] for e in asg}
        ok = bool(thr) and names == {"last_era", "last_hazard_era"} and not any(fn.event_reaches(a, t) for a in asg for t in thr)
        ctx.check(ok, "HE.exception-safety", inst, "last_era / last_hazard_era are assigned together after need_more_hes()",
                  "the era-sharing cache (last_hazard_era, last_era) is modified before need_more_hes(), which throws when the static pool is exhausted: after the "
                  "exception last_era names the new era while last_hazard_era still publishes an older one, and later allocations share a slot that does not protect them",
                  fn.where(asg[0]) if asg else fn.where(), fn=fn)
        # and they are updated on the same paths
        for a in asg:
            others = [x for x in asg if fn.field_of(fn.kids(x)[0]) != fn.field_of(fn.kids(a)[0])]
            ok2 = any(fn.before(a, o) or fn.before(o, a) for o in others)
            ctx.check(ok2, "HE.exception-safety", CB + "alloc_hazard_era#cache-fields-paired", "cache fields updated together", "last_era and last_hazard_era are not updated on the same path", fn.where(a), fn=fn)
    # slots
    guarded(ctx, "HE.slots", CB + "alloc_hazard_era", call("need_more_hes"), {"want": flow.null_want(lambda f, x: flow.has_src(f, x, "param#0")), "desc": "hint == nullptr"}, True,
            label="need_more|null")
    chain(ctx, "HE.slots", CB + "alloc_hazard_era", [call("get_link"), call("set_era"), call("hazard_era::add_guard", pred=lambda fn, nid: "last_hazard_era" not in fn.expr(nid))], mode="dom", label="link<era<guard")
    _throws_only(ctx, "HE.slots", R + "detail::static_he_thread_control_block::need_more_hes", "bad_hazard_era_alloc")
    guarded(ctx, "HE.slots", CB + "release_hazard_era", call("set_link"), {"want": flow.null_want(lambda f, x: flow.has_src(f, x, "call:release_guard")), "desc": "release_guard() == 0"}, True,
            label="free|last-guard", why="a hazard era slot is shared by guards of the same era; it may be recycled only when the last guard leaves")
    chain(ctx, "HE.slots", HE + "guard_ptr::reset", [call("release_hazard_era")], label="reset-releases")
    # a hazard era slot is shared by copies / same-era guards: its era may only be overwritten by its sole owner
    for f in ("guard_ptr::acquire", "guard_ptr::acquire_if_equal"):
        guarded(ctx, "HE.shared-slot", HE + f, call("set_era"), {"k": "bin", "pred": lambda fn, nid: fn.nodes[nid].get("op") == "==" and "call:guards" in flow.srcs(fn, nid)
                                                              and any(fn.nodes[k].get("v") == 1 for k in fn.kids(nid)), "desc": "guards() == 1"}, True,
                label=f.split("::")[-1] + ":set_era|sole-owner",
                why="re-using a slot that other guards share moves their protected era as well: an object a copied guard still refers to is no longer covered")
    # C01.b the era that decides the return follows the load of the pointer
    for f in ("guard_ptr::acquire", "guard_ptr::acquire_if_equal"):
        chain(ctx, "HE.era-after-load", HE + f, [{"k": "call", "field": "param:p", "op": "load", "desc": "load of the source"},
                                                 {"k": "call", "field": "era_clock", "op": "load", "desc": "era_clock load"}], label=f.split("::")[-1] + ":load<era")
    # F21: a guard is handed out only with a STABLE era: the era clock, read after the pointer, equals the era this guard already publishes.
    # Comparing the re-read pointer is no substitute - a reclaimed node's memory can be re-used for a node of a later era (ABA).
    ctx.rule("HE.era-stable", "hazard_eras acquire / acquire_if_equal: the guard takes a non-null pointer (and reports success) only through the 'equal' edge of a "
                              "comparison between the era clock (read after the pointer) and the era the guard publishes; that era variable is only ever "
                              "defined from the hazard era's own value or, after the publication call, from the published value")
    for f in ("guard_ptr::acquire", "guard_ptr::acquire_if_equal"):
        for fn in flow._shapes(ctx, HE + f):
            leafname = f.split("::")[-1]
            is_era = lambda f_, x: flow.has_src(f_, x, "load:era_clock") or flow.has_src(f_, x, "call:get_era")
            era_eq = flow.equal_want(is_era)
            null_val = flow.null_want(lambda f_, x: flow.has_src(f_, x, "load:param#0") and not flow.has_src(f_, x, "load:era_clock"))

            def want(f_, nid, era_eq=era_eq, null_val=null_val):
                w = era_eq(f_, nid)
                return w if w is not None else null_val(f_, nid)
            targets = [e for e in flow.find(fn, {"k": "call", "callee": "marked_ptr::operator="}) if fn.field_of(fn.kids(e)[0]).endswith("guard_ptr::ptr")]
            targets += [e for e in flow.find(fn, {"k": "bin"}) if fn.nodes[e]["op"] == "=" and fn.field_of(fn.kids(e)[0]).endswith("guard_ptr::ptr")]
            targets = [e for e in targets if flow.has_src(fn, fn.kids(e)[1], "load:param#0")]
            targets += [e for e in flow.find(fn, {"k": "return"}) if fn.kids(e) and fn.nodes[fn.kids(e)[0]].get("v") == 1 and fn.nodes[fn.kids(e)[0]].get("t") == "bool"]
            inst = HE + f + "#success|era-stable"
            if not targets:
                ctx.bad("HE.era-stable", inst, "no assignment of the loaded pointer to guard_ptr::ptr / no 'return true' found", fn.where(), fn=fn)
                continue
            for t in targets:
                ok, path, n = flow.only_via_want(fn, t, want)
                ctx.check(ok and n > 0, "HE.era-stable", inst, "pointer taken only when the era read after loading it equals the published era (or it is null)",
                          "%s hands out a pointer without the era clock - read after the pointer was loaded - being equal to the era the guard publishes. A pointer "
                          "comparison does not help: if the node was reclaimed before the era was published and its memory re-used for a node constructed in a "
                          "later era that is linked at the same place, the addresses match although the published era lies outside the new node's lifetime, and "
                          "the node is reclaimed under the live guard (F21)" % leafname, fn.where(t), fn=fn, path=flow.describe_path(fn, path))
            # the compared era variable really is the published era
            eq_atoms = []
            for b, blk in fn.blocks.items():
                if "cond" in blk and b in fn.live_blocks():
                    for atom, pol in flow._flatten_logical(fn, blk["cond"])[1]:
                        if atom is not None and atom >= 0 and era_eq(fn, atom) is not None:
                            eq_atoms.append(atom)
            pubs = [e for e in flow.find(fn, call("set_era")) + flow.find(fn, call("alloc_hazard_era"))]
            same_era, _n = flow.licensed_edges(fn, era_eq)
            pub_blocks = {fn.pos()[e][0] for e in pubs if e in fn.pos()}
            for atom in eq_atoms:
                c = flow.eq_cmp(fn, atom)
                for side in (c[1], c[2]):
                    leaf = side
                    while fn.nodes[leaf]["k"] == "cast" and fn.kids(leaf):
                        leaf = fn.kids(leaf)[0]
                    sn = fn.nodes[leaf]
                    if sn["k"] != "ref" or sn.get("dk") != "local":
                        continue
                    name = sn["name"]
                    defs = [(b_, i_, e_, n_) for b_, i_, e_, n_ in fn.events(live_only=True)
                            if (n_["k"] == "decl" and any(v["name"] == name and "init" in v for v in n_["vars"])) or
                            (n_["k"] == "bin" and n_["op"] == "=" and fn.kids(e_) and fn.nodes[fn.kids(e_)[0]]["k"] == "ref" and fn.nodes[fn.kids(e_)[0]].get("name") == name)]
                    for b_, i_, e_, n_ in defs:
                        rhs = fn.kids(e_)[1] if n_["k"] == "bin" else next(v["init"] for v in n_["vars"] if v["name"] == name)
                        if not flow.has_src(fn, rhs, "load:era_clock"):
                            # initial value: the era the guard's hazard era already publishes (or 0 = none; eras are never 0, HE.era-nonzero)
                            ok = flow.has_src(fn, rhs, "call:get_era") or flow.const_value(fn, rhs) == 0
                            ctx.check(ok, "HE.era-stable", HE + f + "#%s=published-era" % name, "initialised from the hazard era's own value",
                                      "'%s' is compared with the era clock to decide that the guard is protected, but it is initialised from something other than "
                                      "the era the guard's hazard era publishes" % name, fn.where(e_), fn=fn)
                            continue
                        if n_["k"] == "decl" and fn.nodes[rhs]["k"] == "call" and fn.nodes[rhs].get("callee", "").split("::")[-1] == "load":
                            continue  # this is the clock value itself (the other side of the comparison)
                        # prev = era: only after that era has been published on this path
                        clock_loads = flow.find(fn, {"k": "call", "field": "era_clock", "op": "load"})
                        leak = None
                        for cl in clock_loads:
                            pb = fn.pos().get(cl)
                            if pb is None:
                                continue
                            if pb[0] == b_:
                                same = [x for x in fn.blocks[b_]["elems"][pb[1]:i_] if x in pubs]
                                if pb[1] < i_ and not same:
                                    leak = [b_]
                                continue
                            if b_ in pub_blocks and any(fn.pos()[x][1] < i_ for x in pubs if fn.pos().get(x, (None,))[0] == b_):
                                continue
                            for s_ in fn.blocks[pb[0]]["succ"]:
                                if s_ is None:
                                    continue
                                # (a path that skips the publication because the hazard era already holds exactly this era is fine)
                                pth = None if (pb[0], s_) in same_era else flow._path(fn, s_, b_, same_era, pub_blocks - {b_})
                                if pth is not None and not (s_ in pub_blocks):
                                    leak = [pb[0]] + pth
                                    break
                            if leak:
                                break
                        ctx.check(leak is None, "HE.era-stable", HE + f + "#%s=era|published" % name, "re-defined from the clock value only after that value was published",
                                  "'%s' takes the new clock value on a path that does not publish it (set_era / alloc_hazard_era): the next iteration finds the clock "
                                  "equal to '%s' and hands out the pointer although the hazard era still publishes an older era" % (name, name),
                                  fn.where(e_), fn=fn, path=flow.describe_path(fn, leak or []))
    # F12: a new hazard era is allocated before the shared one is given up (exception safety)
    for f in ("guard_ptr::acquire", "guard_ptr::acquire_if_equal"):
        for fn in flow._shapes(ctx, HE + f):
            inst = HE + f + "#alloc-before-release_guard"
            rel = flow.find(fn, call("hazard_era::release_guard"))
            alloc = flow.find(fn, call("alloc_hazard_era"))
            if not alloc:
                ctx.bad("HE.exception-safety", inst, "no alloc_hazard_era call", fn.where(), fn=fn)
                continue
            # no path release_guard -> alloc_hazard_era (which may throw) within one iteration: alloc must dominate release
            ok = all(any(fn.before(a, r) for a in alloc) for r in rel)
            ctx.check(ok, "HE.exception-safety", inst, "alloc_hazard_era (may throw) dominates every release_guard",
                      "release_guard() is executed before the throwing alloc_hazard_era(): if the static pool is exhausted the guard keeps a "
                      "reference that is no longer counted (another guard's protection is revoked by a later reset)", fn.where(rel[0]) if rel else fn.where(), fn=fn)


# ---------------------------------------------------------------------------------------------------------------
def thread_block_list_rules(ctx):
    T = R + "detail::thread_block_list::"
    rid = "TBL.adopt"
    ctx.rule(rid, "control blocks of exited threads are re-used: adoption loop before allocation, acquire-CAS from free, release-store to free")
    # C17.b: new T() only after the adoption loop failed
    for fn in flow._shapes(ctx, T + "adopt_or_create_entry"):
        inst = T + "adopt_or_create_entry#adopt-before-new"
        news = flow.find(fn, {"k": "new"})
        tries = flow.find(fn, call("try_adopt"))
        if not news or not tries:
            ctx.bad(rid, inst, "adopt_or_create_entry must try to adopt (%d) before allocating (%d)" % (len(tries), len(news)), fn.where(), fn=fn)
            continue
        # the allocation is only reached via the false edge of the loop condition `result` (list exhausted)
        # (the cursor is whatever is loaded from head and advanced through next_entry; the test may be `while (c)`, `c != nullptr`, ...)
        ok, path, n = flow.only_via_want(fn, news[0], flow.null_want(lambda f, x: flow.has_src(f, x, "load:head")))
        ok2 = all(fn.event_reaches(t, news[0]) for t in tries) and not any(fn.before(news[0], t) for t in tries)
        ctx.check(ok and n > 0 and ok2, rid, inst, "allocation only after the adoption loop ran off the end of the list",
                  "a new control block is allocated without first trying to adopt every free block (bookkeeping grows with threads ever created)",
                  fn.where(news[0]), fn=fn, path=flow.describe_path(fn, path))
        rets = [e for e in flow.find(fn, {"k": "return"})]
        # the early return inside the loop is licensed by try_adopt being true
        inner = [r for r in rets if not fn.before(news[0], r)]
        for r in inner:
            ok3, p3, n3 = flow.only_via(fn, r, lambda f, nid: flow.node_matches(f, nid, call("try_adopt")), True)
            ctx.check(ok3 and n3 > 0, rid, T + "adopt_or_create_entry#return|adopted", "early return only with an adopted block",
                      "a block is returned without a successful try_adopt (two threads could share one control block)", fn.where(r), fn=fn)
    chain(ctx, rid, T + "adopt_or_create_entry", [{"k": "new"}, call("add_entry")], label="new<add_entry")
    # ownership of a control block changes hands through `state`: abandon() stores the constant X, try_adopt() takes the block with a CAS that
    # expects exactly X and reports success only if that CAS succeeded (the relaxed pre-check before the CAS is an optimisation, not required)
    freed = set()
    for fn in flow._shapes(ctx, T + "entry::abandon"):
        for e in flow.find(fn, {"k": "call", "field": "state", "op": "store"}):
            freed.add(flow.const_value(fn, fn.kids(e)[1]) if len(fn.kids(e)) > 1 else None)
    for fn in flow._shapes(ctx, T + "entry::try_adopt"):
        cass = flow.find(fn, {"k": "call", "field": "state", "kind": "cas"})
        inst = T + "entry::try_adopt#cas-expects-free"
        if not cass:
            ctx.bad(rid, inst, "try_adopt must take ownership with a CAS on state", fn.where(), fn=fn)
            continue
        for c_ in cass:
            exp = fn.kids(c_)[1]
            vals = set()
            if fn.nodes[exp]["k"] == "ref" and fn.nodes[exp].get("dk") == "local":
                ds = flow.local_defs(fn, fn.nodes[exp]["name"])
                vals = {flow.const_value(fn, d) if d is not None else None for d in ds} if ds else {None}
            else:
                vals = {flow.const_value(fn, exp)}
            ok = None not in vals and None not in freed and bool(freed) and vals == freed
            ctx.check(ok, rid, inst, "the adopting CAS expects the value abandon() stores (%s)" % sorted(freed),
                      "try_adopt's CAS expects %s but abandon() stores %s: either no block is ever re-used or a block that is still owned is taken over" % (
                          sorted(map(str, vals)), sorted(map(str, freed))), fn.where(c_), fn=fn)
        for r in flow.find(fn, {"k": "return"}):
            k_ = fn.kids(r)
            if not k_ or flow.const_value(fn, k_[0]) == 0:
                continue
            direct = flow.value_only_from(fn, k_[0], set(cass))
            ok, path, n = (True, [], 1) if direct else flow.only_via(fn, r, lambda f, nid: nid in cass, True)
            ctx.check(ok and n > 0, rid, T + "entry::try_adopt#true|cas-won", "success reported only when the CAS succeeded",
                      "try_adopt can report success without having won the CAS on state: two threads share one control block", fn.where(r), fn=fn)
    chain(ctx, rid, T + "release_entry", [call("abandon")], label="release=abandon")
    present(ctx, rid, T + "entry::abandon", {"k": "call", "field": "state", "op": "store"}, label="store-free")


# ---------------------------------------------------------------------------------------------------------------
def epoch_rules(ctx):
    E = R + "generic_epoch_based::"
    TD = E + "thread_data::"
    rid = "EBR.protocol"
    ctx.rule(rid, "epoch based reclamation: critical-region flag then seq_cst fence then epoch load; epoch advance = acquire fence, detach "
                  "orphan slot, release-CAS, delete on success / hand back on failure; three epochs; retire into the current local epoch")
    chain(ctx, rid, TD + "set_critical_region_flag", [{"k": "call", "field": "is_in_critical_region", "op": "store", "desc": "flag store"}, FENCE_SC], label="flag<fence",
          why="store->load ordering between announcing the critical region and reading the global epoch")
    for fn in flow._shapes(ctx, TD + "do_enter_critical"):
        sets = flow.find(fn, call("set_critical_region_flag"))
        loads = flow.find(fn, {"k": "call", "field": "global_epoch", "op": "load"})
        inst = TD + "do_enter_critical#flag<epoch-load"
        if not loads:
            ctx.bad(rid, inst, "do_enter_critical does not read the global epoch", fn.where(), fn=fn)
            continue
        if not sets:
            # eager region extension: the flag is set by enter_region()
            ctx.ok(rid, inst, "flag is set by enter_region in this configuration", fn.where(), nontrivial=False, fn=fn)
            continue
        flagload = lambda f, nid: bool(f.atomic(nid)) and f.atomic(nid)["kind"] == "load" and f.atomic(nid)["field"].endswith("is_in_critical_region")
        okall = True
        for l in loads:
            ok, path = flow.must_pass(fn, l, sets)
            if not ok:
                # lazy region extension: allowed to skip the call only on the edge where the flag was observed to be set already
                edges = flow.cond_edges(fn, flagload)
                removed = {(b, f_) for b, atom, t, f_ in edges if f_ is not None}  # remove the 'flag not set' edges... t = flag set
                # paths that avoid set_critical_region_flag must go through a 'flag set' edge
                pos = fn.pos()
                blocked = {pos[x][0] for x in sets}
                reach = fn.reachable_blocks(removed_edges={(b, t) for b, atom, t, f_ in edges if t is not None}, removed_blocks=blocked)
                ok = pos[l][0] not in reach and bool(edges)
            okall = okall and ok
        ctx.check(okall, rid, inst, "global epoch is read only after the critical-region flag was set (and fenced)",
                  "the global epoch can be read on a path where the critical-region flag has not been set: the epoch may advance twice while "
                  "this thread believes it is protected", fn.where(loads[0]), fn=fn)
    GE_CAS = {"k": "call", "field": "global_epoch", "kind": "cas", "desc": "global_epoch CAS"}
    chain(ctx, rid, TD + "update_global_epoch", [dict(FENCE_ACQ), GE_CAS], label="acquire-fence<cas",
          why="the fence orders the scan's loads of the other threads' state before publishing the new epoch")
    # C01.g drain before publish
    chain(ctx, "EBR.orphans", TD + "update_global_epoch", [call("orphan_list::adopt"), GE_CAS], label="adopt<publish",
          why="once the new epoch is published other threads can put nodes retired in that epoch into the same orphan slot; "
              "the slot must be detached before the CAS")
    guarded(ctx, "EBR.orphans", TD + "update_global_epoch", call("delete_objects"), GE_CAS, True, label="delete|cas-success",
            why="detached orphans may only be destroyed by the thread that published the epoch")
    guarded(ctx, "EBR.orphans", TD + "update_global_epoch", call("orphan_list::add"), GE_CAS, False, label="handback|cas-failure",
            why="orphans detached by a thread that lost the race must be handed back, not dropped (C02) and not destroyed")
    # update_local_epoch: publish the new local epoch, then free
    chain(ctx, rid, TD + "update_local_epoch", [{"k": "call", "field": "local_epoch", "op": "store", "desc": "local_epoch.store"}, call("steal"), call("delete_objects")],
          label="store<steal<delete")
    # constants
    for rec in ctx.facts.rec_by_pat.get(R + "generic_epoch_based", []):
        pass
    _number_epochs(ctx, TD + "update_local_epoch", "EBR.constants")
    # C01.d retire into the list of the current local epoch
    for fn in flow._shapes(ctx, TD + "add_retired_node"):
        pushes = flow.find(fn, call("push"))
        ok = bool(pushes) and any("local_epoch_idx" in fn.expr(p) for p in pushes)
        ctx.check(ok, "EBR.constants", TD + "add_retired_node#current-epoch-list", "push into retire_lists[local_epoch_idx]",
                  "a retired node must be filed under the thread's current local epoch", fn.where(), fn=fn)
    # thread exit
    _exit_handover(ctx, "EBR.thread-exit", TD + "~thread_data", "retire_lists", call("orphan_list::add"), call("release_entry"))
    chain(ctx, "EBR.thread-exit", TD + "~thread_data", [call("steal"), call("orphan_list::add")], label="steal-into-orphans")
    chain(ctx, "EBR.block-init", TD + "acquire_control_block", [call("acquire_entry"), {"k": "call", "field": "global_epoch", "op": "load"},
                                                                 {"k": "call", "field": "local_epoch", "op": "store"}], label="acquire<epoch<store",
          why="an adopted control block carries the stale local epoch of the previous owner")
    # C17.c exited / non-critical threads never block the epoch
    crit = {"k": "call", "field": "is_in_critical_region", "op": "load", "desc": "is_in_critical_region.load"}
    le = {"k": "call", "field": "local_epoch", "op": "load", "desc": "local_epoch.load"}
    guarded(ctx, "EBR.activity", R + "scan::all_threads::type::scan::(lambda0)::operator()", le, crit, True, label="epoch|in-critical",
            why="a thread outside a critical region (or exited) must not prevent the epoch from advancing")
    guarded(ctx, "EBR.activity", R + "scan::n_threads::type::scan", le, crit, True, label="epoch|in-critical")
    # which retire lists are emptied when the thread observes a new epoch - finite execution of update_local_epoch
    from .evalx import run_until, evalx as _evalx, Unknown as _Unknown
    ctx.rule("EBR.epoch-slots", "update_local_epoch(new): for every old local epoch o and new epoch n (o < n <= o+7, finite execution): exactly the retire lists of the slots "
                                "(n - i) mod number_epochs, 0 <= i < min(number_epochs, n - o), are emptied and local_epoch_idx ends as n mod number_epochs - the slot index "
                                "must stay a function of the ABSOLUTE epoch because orphaned lists are filed under absolute epoch slots")
    for fn in flow._shapes(ctx, TD + "update_local_epoch"):
        steals = flow.find(fn, call("steal"))
        if not steals or not fn.params:
            ctx.broken.append("update_local_epoch: retire list hand-over (steal) not found")
            continue
        ne = None
        for x in fn.nodes:
            if isinstance(x.get("v"), int) and (x.get("name", "").endswith("number_epochs") or x.get("leaf") == "number_epochs"):
                ne = x["v"]
        if not ne:
            ctx.broken.append("update_local_epoch: number_epochs not found")
            continue
        bad = None
        try:
            for o in range(0, 2 * ne):
                for n_ in range(o + 1, o + 8):
                    got = []
                    final = {}

                    def on_event(f, e, env, got=got, final=final):
                        nn = f.nodes[e]
                        if e in steals:
                            obj = f.kids(e)[0]
                            for x in f.subtree(obj):
                                if f.nodes[x]["k"] == "index" or (f.nodes[x]["k"] == "call" and f.nodes[x].get("callee", "").endswith("operator[]")):
                                    got.append(_evalx(f, f.kids(x)[1], env))
                                    break
                        elif nn["k"] == "bin" and nn["op"] == "=" and f.nodes[f.kids(e)[0]]["k"] == "member" and f.nodes[f.kids(e)[0]].get("leaf") == "local_epoch_idx":
                            final["idx"] = _evalx(f, f.kids(e)[1], env)
                    env0 = {fn.params[0]["name"]: n_, "load:local_epoch": o, "this.local_epoch_idx": o % ne, "local_epoch_idx": o % ne}
                    run_until(fn, env0, lambda f, e: False, on_event=on_event)
                    want = sorted((n_ - i) % ne for i in range(min(ne, n_ - o)))
                    if sorted(got) != want or final.get("idx") != n_ % ne:
                        bad = (o, n_, sorted(got), want, final.get("idx"), n_ % ne)
                        raise StopIteration
        except StopIteration:
            pass
        except _Unknown as ex:
            ctx.broken.append("update_local_epoch not executable (%s)" % ex)
            continue
        ctx.exhaustive["EBR.epoch-slots"] = True
        ctx.check(bad is None, "EBR.epoch-slots", TD + "update_local_epoch#slots", "emptied slots and final slot index agree with the absolute epoch for all (old, new) pairs",
                  "advancing the local epoch from %s to %s empties the retire lists of slots %s (expected %s) and leaves local_epoch_idx = %s (expected %s = new mod number_epochs): "
                  "the thread's slot index drifts away from the absolute epoch, so nodes it hands over at exit / abandonment are filed under a slot that is freed one or two "
                  "epochs too early (destroyed while a reader that entered in the retirement epoch still holds a guard)" % (bad or (0, 0, [], [], 0, 0)), fn.where(steals[0]), fn=fn)
    # incremental scan (DEBRA style): the block whose state licenses the advance of the cursor is the block the cursor designates NOW
    ctx.rule("EBR.scan-cursor", "incremental epoch scan (scan::n_threads): the control block that is tested is the one the cursor currently designates - a local alias "
                                "of *thread_iterator is re-evaluated after every advance of the cursor; the scan reports completion only when the cursor reached the end")
    for fn in flow._shapes(ctx, R + "scan::n_threads::type::scan"):
        incs = [e for b, i, e, n in fn.events() if n["k"] in ("un", "call") and (n.get("op") == "++" or n.get("callee", "").endswith("operator++")) and
                fn.kids(e) and flow.has_src(fn, fn.kids(e)[0], "field:thread_iterator")]
        tests = flow.find(fn, crit) + flow.find(fn, le)
        inst = R + "scan::n_threads::type::scan#tests-current-block"
        if not incs or not tests:
            ctx.bad("EBR.scan-cursor", inst, "cursor advance (%d) / block tests (%d) not found" % (len(incs), len(tests)), fn.where(), fn=fn)
            continue
        bad = None
        for t in tests:
            obj = fn.kids(t)[0]
            if not flow.has_src(fn, obj, "field:thread_iterator"):
                bad = (t, "the tested block is not derived from the scan cursor")
                continue
            for x in fn.subtree(obj):
                xn = fn.nodes[x]
                if xn["k"] == "ref" and xn.get("dk") == "local":
                    dpos = flow.def_event_pos(fn, xn["name"])
                    tpos = fn.pos().get(t)
                    for inc in incs:
                        stale = dpos is None or (fn.event_reaches(inc, t, removed_blocks={dpos[0]}) and not (tpos and dpos[0] == tpos[0] and dpos[1] < tpos[1]))
                        if stale:
                            bad = (t, "'%s' is an alias of *thread_iterator taken before the cursor advances (line %d) and is not re-evaluated afterwards: after the first "
                                      "advance the loop keeps testing the old block and steps over threads that are still in a critical region of an old epoch" % (
                                          xn["name"], fn.nodes[inc].get("l", 0)))
        ctx.check(bad is None, "EBR.scan-cursor", inst, "every tested block is the cursor's current block", bad[1] if bad else "", fn.where(bad[0]) if bad else fn.where(), fn=fn)
        for r in [e for e in flow.find(fn, {"k": "return"}) if fn.kids(e) and flow.const_value(fn, fn.kids(e)[0]) == 1]:
            ok, path, n = flow.only_via_want(fn, r, flow.cmp_want(lambda f, x: flow.has_src(f, x, "field:thread_iterator"), lambda f, x: flow.has_src(f, x, "call:end")))
            ctx.check(ok and n > 0, "EBR.scan-cursor", R + "scan::n_threads::type::scan#complete|cursor==end", "scan reports completion only when the cursor reached the end of the list",
                      "the incremental scan reports 'all threads checked' without the cursor having reached the end of the thread list", fn.where(r), fn=fn)
        for inc in incs:
            ok, path, n = flow.only_via_want(fn, inc, _may_advance_want(crit, le))
            ctx.check(ok and n > 0, "EBR.scan-cursor", R + "scan::n_threads::type::scan#advance|block-passed", "the cursor advances only past a block that is outside a critical region or in the current epoch",
                      "the scan cursor advances past a control block without having established that the thread is outside a critical region or has observed the current epoch", fn.where(inc), fn=fn)
    # the flag is cleared when the outermost critical region is left; abandon strategy applied afterwards
    chain(ctx, rid, TD + "clear_critical_region_flag", [{"k": "call", "field": "is_in_critical_region", "op": "store", "desc": "flag clear"}], label="clears-flag")


def _may_advance_want(crit, le):
    """want function: `!in_critical_region` (flag load false) or `local_epoch == epoch` (equal)"""
    eq = flow.cmp_want(lambda f, x: flow.node_matches(f, x, le) or flow.has_src(f, x, "load:local_epoch"), lambda f, x: flow.has_src(f, x, "param#0"))

    def want(fn, nid):
        if flow.node_matches(fn, nid, crit):
            return False
        return eq(fn, nid)
    return want


def _number_epochs(ctx, pat, rid, minimum=3):
    ctx.rule(rid, "constants of the epoch schemes: number_epochs >= 3; freed list indices are (new_epoch - i) %% number_epochs")
    vals = set()
    for fn in flow._shapes(ctx, pat):
        for b, i, e, n in fn.events():
            if n["k"] == "ref" and n.get("name", "").endswith("number_epochs") and "v" in n:
                vals.add(n["v"])
            if n["k"] == "member" and n.get("leaf") == "number_epochs" and "v" in n:
                vals.add(n["v"])
    if not vals:
        ctx.broken.append("number_epochs not found as a constant in %s" % pat)
        return
    ctx.check(min(vals) >= minimum, rid, pat.split("::thread_data")[0] + "#number_epochs>=%d" % minimum, "number_epochs = %s" % sorted(vals),
              "number_epochs = %s: with fewer than three epoch lists a node retired in epoch e can be freed while a region entered in e+1 "
              "still references it" % sorted(vals), "", None)


def qsbr_rules(ctx):
    Q = R + "quiescent_state_based::"
    TD = Q + "thread_data::"
    rid = "QSBR.protocol"
    ctx.rule(rid, "quiescent state based reclamation: epoch advance blocked by active threads in the previous epoch; retire list of "
                  "epoch e freed after the local epoch store; orphans re-filed (never deleted directly) on the CAS success edge")
    GE_CAS = {"k": "call", "field": "global_epoch", "kind": "cas", "desc": "global_epoch CAS"}
    chain(ctx, rid, TD + "try_update_epoch", [dict(FENCE_ACQ), GE_CAS], label="acquire-fence<cas")
    guarded(ctx, rid, TD + "try_update_epoch", call("adopt_orphans"), GE_CAS, True, label="adopt|cas-success",
            why="orphans are adopted by exactly the thread that advanced the epoch")
    # 'return false' only if some active thread is in the old epoch
    chain(ctx, rid, TD + "quiescent_state", [{"k": "call", "field": "global_epoch", "op": "load"}, {"k": "call", "field": "local_epoch", "op": "store", "desc": "local_epoch.store"},
                                             call("delete_objects")], label="epoch-load<store<delete",
          why="the thread announces the new epoch before freeing the list of its previous incarnation")
    guarded(ctx, rid, TD + "quiescent_state", {"k": "call", "field": "local_epoch", "op": "store"}, call("try_update_epoch"), True, label="store|update-ok",
            require_action=True) if False else None
    for fn in flow._shapes(ctx, TD + "adopt_orphans"):
        ok = not flow.find(fn, call("delete_self")) and not flow.find(fn, call("delete_objects")) and bool(flow.find(fn, call("add_retired_node")))
        ctx.check(ok, rid, TD + "adopt_orphans#refile-only", "adopted orphans are re-filed under their target epoch, never deleted directly",
                  "adopt_orphans must re-file adopted orphans into the adopter's retire lists", fn.where(), fn=fn)
    _number_epochs(ctx, TD + "quiescent_state", "QSBR.constants")
    # activity conjunct
    guarded(ctx, "QSBR.activity", TD + "try_update_epoch::(lambda0)::operator()", call("is_active"), {"k": "bin", "pred": lambda fn, nid: fn.nodes[nid].get("op") == "==" and flow.has_src(fn, nid, "load:local_epoch"), "desc": "local_epoch == old_epoch"},
            True, label="is_active-conjunct", why="an exited thread (inactive block) must not block the epoch")
    for fn in flow._shapes(ctx, TD + "try_update_epoch::(lambda0)::operator()"):
        ok = bool(flow.find(fn, call("is_active")))
        ctx.check(ok, "QSBR.activity", TD + "try_update_epoch#is_active", "blocking predicate tests is_active", "the blocking predicate ignores is_active", fn.where(), fn=fn)
    # thread exit: orphan created with the retire lists, before the block is released
    _exit_handover(ctx, "QSBR.thread-exit", TD + "~thread_data", "retire_lists", call("abandon_retired_nodes"), call("release_entry"))
    # the orphan of an exiting thread is filed under global_epoch - 1 (mod number_epochs): a full cycle of epochs must pass before it is freed
    from .evalx import evalx, Unknown
    for fn in flow._shapes(ctx, TD + "~thread_data"):
        orphans = flow.find(fn, {"k": "new"})
        inst = TD + "~thread_data#orphan-target-epoch"
        tgt = None
        for o in orphans:
            for x in fn.subtree(o):
                xn = fn.nodes[x]
                if xn["k"] == "construct" and xn.get("callee", "").endswith("orphan::orphan") and fn.kids(x):
                    tgt = fn.kids(x)[0]
        if tgt is None:
            ctx.bad("QSBR.thread-exit", inst, "no orphan is created for the pending retire lists", fn.where(), fn=fn)
            continue
        N = None
        for x in fn.subtree(tgt) + [y for d in ([flow.unique_def(fn, fn.nodes[tgt].get("name"))] if fn.nodes[tgt]["k"] == "ref" else []) if d is not None for y in fn.subtree(d)]:
            xn = fn.nodes[x]
            if xn["k"] in ("ref", "member") and xn.get("name", "").endswith("number_epochs") and "v" in xn:
                N = xn["v"]
        bad = None
        try:
            for g in range(0, (N or 3)):
                got = evalx(fn, tgt, {"call:load": (lambda *a, g=g: g)})
                if got != (g - 1) % (N or 3):
                    bad = (g, got)
        except Unknown as ex:
            ctx.broken.append("QSBR ~thread_data: target epoch not evaluable (%s)" % ex)
            continue
        ctx.exhaustive["QSBR.thread-exit"] = True
        ctx.check(bad is None, "QSBR.thread-exit", inst, "orphan target epoch == global_epoch - 1 (mod %s) for every epoch" % N,
                  "an exiting thread files its pending nodes under epoch %s when the global epoch is %s (expected %s): the orphan is destroyed in the quiescent state in "
                  "which it is adopted, while a reader that entered its region before the exit still holds a guard" % (
                      bad[1] if bad else "", bad[0] if bad else "", ((bad[0] - 1) % (N or 3)) if bad else ""), fn.where(tgt), fn=fn)
    # block init: store + validating CAS
    chain(ctx, "QSBR.block-init", TD + "ensure_has_control_block", [call("acquire_entry"), {"k": "call", "field": "local_epoch", "op": "store"}, GE_CAS], label="acquire<store<cas",
          why="the local epoch of an adopted block is set and validated against the global epoch")
    # add_retired_node uses the thread's current local epoch
    for fn in flow._shapes(ctx, TD + "add_retired_node"):
        if len(fn.params) == 1:
            ok = any("local_epoch" in fn.expr(e) for e in flow.find(fn, call("add_retired_node")))
            ctx.check(ok, "QSBR.constants", TD + "add_retired_node#current-epoch-list", "node filed under the current local epoch",
                      "a retired node must be filed under the thread's current local epoch", fn.where(), fn=fn)


# ---------------------------------------------------------------------------------------------------------------
def stamp_rules(ctx):
    S = R + "stamp_it::"
    TD = S + "thread_data::"
    rid = "STAMP.protocol"
    ctx.rule(rid, "stamp-it: a retired node is stamped with the head stamp before it enters a retire list and destroyed only if its stamp "
                  "is <= the tail stamp; next pointers are read before delete_self; the last leaver processes the global list")
    STAMP_LE = {"k": "bin", "pred": lambda fn, nid: fn.nodes[nid].get("op") == "<=" and flow.has_src(fn, fn.kids(nid)[0], "field:stamp") and (
        flow.has_src(fn, fn.kids(nid)[1], "call:tail_stamp") or flow.has_src(fn, fn.kids(nid)[1], "field:tail_stamp") or
        any(t.startswith("local:") for t in flow.srcs(fn, fn.kids(nid)[1]))), "desc": "stamp <= tail_stamp"}
    guarded(ctx, "STAMP.delete-licensed", TD + "process_local_nodes", call("delete_self"), STAMP_LE, True, label="delete|stamp<=tail")
    chain(ctx, rid, TD + "process_local_nodes", [call("tail_stamp"), call("delete_self")], label="tail_stamp<delete")
    guarded(ctx, "STAMP.delete-licensed", TD + "process_global_nodes::(lambda0)::operator()", call("delete_self"), STAMP_LE, True, label="delete|stamp<=tail")
    chain(ctx, rid, TD + "process_global_nodes::(lambda0)::operator()", [{"k": "decl", "pred": lambda fn, nid: any("init" in v and flow.has_src(fn, v["init"], "field:next") for v in fn.nodes[nid]["vars"]), "desc": "successor read (x = cur->next)"}, call("delete_self")],
          label="next<delete", why="the successor must be read before the node is destroyed")
    chain(ctx, rid, TD + "process_local_nodes", [{"k": "bin", "pred": lambda fn, nid: fn.nodes[nid].get("op") == "=" and flow.has_src(fn, fn.kids(nid)[1], "field:next") and fn.nodes[fn.kids(nid)[0]]["k"] == "ref", "desc": "successor read (x = cur->next)"}, call("delete_self")],
          label="next<delete")
    chain(ctx, rid, TD + "process_global_nodes", [call("tail_stamp"), call("steal_global_retired_nodes")], label="tail_stamp<steal",
          why="the tail stamp used for the test must not be newer than the list it is applied to ... it must be read before stealing")
    chain(ctx, rid, TD + "add_retired_node", [call("head_stamp"), {"k": "bin", "pred": lambda fn, nid: fn.nodes[nid].get("op") == "=" and fn.nodes[fn.kids(nid)[0]]["k"] == "un" and fn.nodes[fn.kids(nid)[0]].get("op") == "*" and flow.has_src(fn, fn.kids(nid)[0], "field:prev_retired_node"), "desc": "*prev_retired_node = p"}],
          label="stamp<insert")
    chain(ctx, rid, TD + "enter_region", [call("ensure_has_control_block"), call("thread_order_queue::push")], label="block<push")
    guarded(ctx, rid, TD + "enter_region", call("thread_order_queue::push"), {"want": flow.cmp_want(lambda f, x: f.nodes[x]["k"] == "un" and f.nodes[x].get("op") == "++" and flow.has_src(f, x, "field:region_entries"), flow.const_is(1)), "desc": "++region_entries == 1"}, True,
            label="push|outermost")
    guarded(ctx, rid, TD + "leave_region", call("thread_order_queue::remove"), {"want": flow.cmp_want(lambda f, x: f.nodes[x]["k"] == "un" and f.nodes[x].get("op") == "--" and flow.has_src(f, x, "field:region_entries"), flow.const_is(0)), "desc": "--region_entries == 0"}, True,
            label="remove|outermost")
    chain(ctx, rid, TD + "leave_region", [call("thread_order_queue::remove"), call("process_global_nodes")], label="remove<process")
    guarded(ctx, rid, TD + "leave_region", call("process_global_nodes"), call("thread_order_queue::remove"), True, label="global|wasLast",
            why="only the last thread to leave may process the global retire list against the tail stamp it observed")
    # thread exit
    for fn in flow._shapes(ctx, TD + "~thread_data"):
        h = flow.find(fn, call("add_to_global_retired_nodes"))
        ab = flow.find(fn, call("abandon"))
        ctx.check(bool(h) and bool(ab), "STAMP.thread-exit", TD + "~thread_data#handover", "pending nodes go to the global list; control block abandoned",
                  "thread exit must hand its pending retired nodes to the global list and abandon its control block (found %d / %d)" % (len(h), len(ab)), fn.where(), fn=fn)
    chain(ctx, "STAMP.thread-exit", TD + "~thread_data", [call("process_local_nodes"), call("add_to_global_retired_nodes")], label="process<handover")
    _handover_unless_empty(ctx, "STAMP.thread-exit", TD + "~thread_data", "first_retired_node", call("add_to_global_retired_nodes"))
    # lock-freedom of remove(): a block whose push is still pending is HELPED (its PendingPush flag is cleared by CAS), not waited for
    ctx.rule("STAMP.help-pending-push", "stamp-it remove(): when the predecessor's push is still pending its PendingPush flag is cleared by a helping CAS on every path; the "
                                        "remover never waits for the pushing thread")
    H = S + "thread_order_queue::save_next_as_last_and_move_next_to_next_prev"
    for fn in flow._shapes(ctx, H):
        def pending(f, nid):
            # (stamp & PendingPush) != 0
            c = flow.eq_cmp(f, nid)
            if c is None or not any(f.nodes[x]["k"] == "ref" and f.nodes[x].get("name", "").endswith("PendingPush") for x in f.subtree(nid)):
                return None
            zero = flow.const_value(f, c[1]) == 0 or flow.const_value(f, c[2]) == 0
            return (c[0] == "!=") if zero else None
        cas = [e for e in flow.find(fn, {"k": "call", "kind": "cas"}) if fn.atomic(e)["field"].endswith("stamp")]
        lic, n_ = flow.licensed_edges(fn, pending)
        inst = H + "#helps-pending-push"
        if n_ == 0:
            ctx.broken.append("stamp-it: PendingPush test not found in save_next_as_last_and_move_next_to_next_prev")
            continue
        # every way out of the 'push pending' branch passes the helping CAS
        starts = {s_ for (b_, s_) in lic if fn.blocks[b_].get("term") not in ("&&", "||")}     # the branch taken when the WHOLE condition holds
        blocked = {fn.pos()[c_][0] for c_ in cas if c_ in fn.pos()}
        leak = None
        for s_ in starts:
            if s_ in blocked:
                continue
            pth = flow._path(fn, s_, fn.exit, set(), blocked)
            if pth is not None:
                leak = pth
        ctx.check(bool(cas) and leak is None, "STAMP.help-pending-push", inst, "a block with a pending push is helped by CAS on every path",
                  "when the predecessor's push is still pending the function returns without helping to clear its PendingPush flag: a thread leaving its critical region "
                  "then spins until the owner of that block is scheduled again (guard release / reclaim stop being lock-free)", fn.where(cas[0]) if cas else fn.where(), fn=fn,
                  path=flow.describe_path(fn, leak or []))

    chain(ctx, rid, S + "guard_ptr::reclaim", [call("set_deleter"), call("add_retired_node")], label="deleter<retire")


def lfrc_rules(ctx):
    L = R + "lock_free_ref_count::"
    rid = "LFRC.protocol"
    ctx.rule(rid, "lock-free reference counting: increment then re-validate the source; destroy / recycle only when decrement_refcnt() "
                  "claims the node; reclaim drops the initial reference with a release RMW")
    RC_ADD = {"k": "call", "field": "call:" + L + "enable_concurrent_ptr::ref_count", "op": "fetch_add", "desc": "ref_count.fetch_add"}
    for f in ("guard_ptr::acquire", "guard_ptr::acquire_if_equal"):
        chain(ctx, "LFRC.validate-after-protect", L + f, [RC_ADD, {"k": "call", "field": "param:p", "op": "load", "desc": "reload of the source"}], mode="post",
              label=f.split("::")[-1] + ":reload", why="after incrementing the count the source must be re-read and compared; otherwise the node may "
                                                     "already have been recycled for another object")
    # return paths of acquire: only via q == reload (or null)
    for fn in flow._shapes(ctx, L + "guard_ptr::acquire_if_equal"):
        rets = [e for e in flow.find(fn, {"k": "return"}) if fn.kids(e) and fn.nodes[fn.kids(e)[0]].get("v") == 1]
        is_src = lambda f, x: flow.has_src(f, x, "load:param#0")
        _both = flow.cmp_want(is_src, is_src)

        def eqp(f, nid):
            # the re-validation: the first load of the source compared with a SECOND load of it (two different load events)
            w = _both(f, nid)
            if w is None:
                return None
            c = flow.eq_cmp(f, nid)
            return w if flow.src_loads(f, c[1]) != flow.src_loads(f, c[2]) else None
        nullq = flow.null_want(is_src)                                                # q.get() == nullptr
        okall = True
        for r in rets:
            ok, p, n = flow.only_via_want(fn, r, lambda f, nid: nullq(f, nid) if nullq(f, nid) is not None else eqp(f, nid))
            okall = okall and ok and n > 0
        ctx.check(okall and bool(rets), "LFRC.validate-after-protect", L + "guard_ptr::acquire_if_equal#true|revalidated", "'return true' only after re-validation (or null)",
                  "'return true' reachable without the re-validation of the source", fn.where(), fn=fn)
    # destruction licensed by decrement_refcnt()
    for f in ("guard_ptr::reset", "enable_concurrent_ptr::operator delete"):
        guarded(ctx, "LFRC.delete-licensed", L + f, call("push_to_free_list"), call("decrement_refcnt"), True, label="recycle|claimed")
    guarded(ctx, "LFRC.delete-licensed", L + "guard_ptr::reset", {"k": "call", "callee_re": r"::~", "desc": "p->~T()"}, call("decrement_refcnt"), True, label="destroy|claimed",
            require_action=False)
    chain(ctx, rid, L + "guard_ptr::reset", [call("marked_ptr::reset"), call("decrement_refcnt")], label="clear<decrement")
    chain(ctx, rid, L + "guard_ptr::reclaim", [{"k": "call", "op": "fetch_sub", "desc": "ref_count.fetch_sub"}, call("guard_ptr::reset")], label="drop-initial-ref<reset", mode="nobefore")
    # free list: thread-local list is returned to the global list at thread exit
    present(ctx, "LFRC.thread-exit", L + "enable_concurrent_ptr::free_list::thread_local_free_list::~thread_local_free_list", call("add_nodes"), label="return-local-list")
    # the reference counter is only ever modified by atomic read-modify-write operations once the node exists: a plain store would
    # discard the transient increments of readers that are between their first load and their re-validation
    n_rmw = 0
    for fn in ctx.facts.fns:
        if not fn.file.endswith("lock_free_ref_count.hpp"):
            continue
        for a in fn.atomics():
            if a["field"].split("::")[-1] != "ref_count":
                continue
            if a["kind"] in ("rmw", "cas"):
                n_rmw += 1
                continue
            if a["kind"] == "store":
                fresh = fn.pat.endswith("operator new")
                ctx.check(fresh, "LFRC.counter-rmw-only", fn.pat + "#ref_count.store", "store initialises the counter of freshly allocated memory",
                          "ref_count is overwritten by a plain store in %s: increments performed concurrently by readers (acquire increments before it re-validates) are "
                          "lost, the count drops to zero while a validated guard_ptr still refers to the node" % fn.pat, fn.where(a["nid"]), fn=fn)
    ctx.rule("LFRC.counter-rmw-only", "the LFRC reference counter is modified only by atomic RMW operations (fetch_add / fetch_sub / CAS); the only plain store "
                                      "initialises freshly allocated memory in operator new")
    if n_rmw < 5:
        ctx.broken.append("LFRC: only %d RMW operations on ref_count found" % n_rmw)
    else:
        ctx.ok("LFRC.counter-rmw-only", L + "#rmw-sites", "%d RMW sites on ref_count" % n_rmw, "xenium/reclamation/impl/lock_free_ref_count.hpp")
    from .evalx import evalx, Unknown
    for fn in flow._shapes(ctx, L + "enable_concurrent_ptr::decrement_refcnt"):
        rets = flow.find(fn, {"k": "return"})
        cas = flow.find(fn, {"k": "call", "kind": "cas"})
        if not rets or not cas:
            continue
        oldv = fn.nodes[fn.kids(cas[0])[1]].get("name")
        newv = fn.kids(cas[0])[2]
        # new value as a function of the old one: the conditional update (new = old - Inc; if (new == 0) new = ClaimBit) is evaluated along its two paths
        bad = None
        try:
            for old_cnt, want_new, want_ret in ((2, 1, 1), (4, 2, 0), (6, 4, 0), (5, 3, 0)):
                env = {oldv: old_cnt}
                # follow the loop body once: decl/assignments of the new value
                newname = fn.nodes[newv].get("name")
                val = None
                for b, i, e, n in fn.events():
                    if n["k"] == "bin" and n["op"] == "=" and fn.nodes[fn.kids(e)[0]].get("name") == newname:
                        rhs = fn.kids(e)[1]
                        if fn.atomic(rhs):
                            continue
                        blk = fn.blocks[b]
                        # assignment inside the 'became zero' branch?
                        guards = [pb for pb in fn.preds()[b] if "cond" in fn.blocks[pb]]
                        if guards and val is not None:
                            g = fn.blocks[guards[0]]
                            env2 = dict(env)
                            env2[newname] = val
                            if evalx(fn, g["cond"], env2) and g["succ"][0] == b:
                                val = evalx(fn, rhs, env2)
                        else:
                            val = evalx(fn, rhs, env)
                if val is None:
                    raise Unknown("new value not found")
                env[newname] = val
                ret = evalx(fn, fn.kids(rets[0])[0], env)
                if (val != want_new or bool(ret) != bool(want_ret)) and bad is None:
                    bad = (old_cnt, val, bool(ret), want_new, bool(want_ret))
        except Unknown as ex:
            ctx.note("decrement_refcnt not evaluable: %s" % ex)
            bad = None
            continue
        ctx.check(bad is None, "LFRC.delete-licensed", L + "enable_concurrent_ptr::decrement_refcnt#claims-iff-zero",
                  "decrement claims the node (returns true, count = claim bit) exactly when the count drops to zero",
                  "decrement_refcnt(old=%s) yields count %s / returns %s, expected %s / %s: the node is destroyed while references remain, or never destroyed" % (
                      bad if bad else (0, 0, 0, 0, 0)), fn.where(), fn=fn)
    # decrement_refcnt returns true only for the thread that set the claim bit
    present(ctx, rid, L + "enable_concurrent_ptr::decrement_refcnt", {"k": "call", "kind": "cas", "desc": "ref_count CAS"}, label="cas")


# ---------------------------------------------------------------------------------------------------------------
def deleter_rules(ctx):
    """a retired node is destroyed by the deleter stored in it - the deleter usually frees the very storage it is stored in"""
    rid = "DEL.delete-self"
    ctx.rule(rid, "deletable_object_with_non_empty_deleter::delete_self: the stored deleter is moved into a local, the stored copy is destroyed, and only then the LOCAL "
                  "deleter is invoked (the invocation normally frees the node and with it the storage of the stored deleter); set_deleter constructs into the same buffer")
    pat = R + "detail::deletable_object_with_non_empty_deleter::delete_self"
    n = 0
    for fn in flow._shapes(ctx, pat):
        inv = [e for b, i, e, nn in fn.events() if nn["k"] == "call" and nn.get("callee", "").endswith("::operator()")]
        dts = [e for b, i, e, nn in fn.events() if nn["k"] == "call" and "::~" in nn.get("callee", "") and fn.kids(e) and fn.field_of(fn.kids(e)[0]).endswith("_deleter_buffer")]
        if not inv:
            ctx.bad(rid, pat + "#invokes", "delete_self does not invoke a deleter", fn.where(), fn=fn)
            continue
        n += 1
        for e in inv:
            obj = fn.kids(e)[0]
            in_place = fn.field_of(obj).endswith("_deleter_buffer")
            ok = not in_place and bool(dts) and all(fn.before(d, e) for d in dts) and flow.has_src(fn, obj, "field:_deleter_buffer")
            ctx.check(ok, rid, pat + "#local-copy-invoked-after-destroying-stored", "the deleter is moved out, the stored copy destroyed, then the local copy invoked",
                      ("the stored deleter is invoked in place" if in_place else "the stored deleter is not destroyed before the invocation / the invoked deleter is not the stored one") +
                      ": the invocation frees the node that contains the deleter's storage, so the deleter's destructor afterwards runs on released memory (and on another "
                      "node's deleter once the block is re-used)", fn.where(e), fn=fn)
    if n == 0:
        ctx.broken.append("delete_self of nodes with a stateful deleter is not instantiated")
    delete_objects_walk(ctx)


def list_push_rules(ctx):
    """lock-free stack push idiom shared by all hand-over lists"""
    from .harris import _reaches_without
    rid = "LIST.push-relink"
    ctx.rule(rid, "lock-free list push (orphan lists, abandoned nodes, control blocks, stamp-it global list, LFRC free list): the tail of the pushed "
                  "sub-list is linked to the value the CAS expects before EVERY CAS attempt (the link is re-written after a failed CAS refreshed the expected "
                  "head), and the CAS installs the first node")
    sites = [
        (R + "detail::orphan_list::add", "head"),
        (R + "detail::thread_block_list::abandon_retired_nodes", "abandoned_retired_nodes"),
        (R + "detail::thread_block_list::add_entry", "head"),
        (R + "stamp_it::thread_order_queue::add_to_global_retired_nodes", "global_retired_nodes"),
        (R + "lock_free_ref_count::enable_concurrent_ptr::free_list::add_nodes", "head"),
    ]
    for pat, field in sites:
        for fn in flow._shapes(ctx, pat):
            cas = flow.find(fn, {"k": "call", "field": field, "kind": "cas"})
            if not cas:
                if flow.find(fn, call(pat.split("::")[-1])):
                    ctx.ok(rid, pat + "#delegates", "overload forwarding to the (first,last) form", fn.where(), nontrivial=False, fn=fn)
                    continue
                ctx.bad(rid, pat + "#cas", "no CAS on %s" % field, fn.where(), fn=fn)
                continue
            c = cas[0]
            exp = fn.expr(fn.kids(c)[1])
            links = []
            for b, i, e, n in fn.events():
                if n["k"] == "bin" and n["op"] == "=":
                    k = fn.kids(e)
                    if "next" in fn.expr(k[0]) and fn.expr(k[1]).strip("()") == exp.strip("()"):
                        links.append(e)
                elif n["k"] == "call" and fn.atomic(e) and fn.atomic(e)["op"] == "store" and "next" in fn.expr(fn.kids(e)[0]):
                    k = fn.kids(e)
                    if len(k) > 1 and exp.strip("()") in fn.expr(k[1]):
                        links.append(e)
                elif n["k"] == "call" and n.get("callee", "").endswith("operator=") and "next" in fn.expr(fn.kids(e)[0]):
                    k = fn.kids(e)
                    if len(k) > 1 and exp.strip("()") in fn.expr(k[1]):
                        links.append(e)
            inst = pat + "#link-before-every-attempt"
            if not links:
                ctx.bad(rid, inst, "no statement links the pushed nodes to the expected head '%s' of the CAS" % exp, fn.where(c), fn=fn)
                continue
            dominated = any(fn.before(l, c) for l in links)
            cyc = _reaches_without(fn, c, c, set(links))
            ctx.check(dominated and not cyc, rid, inst, "tail->next = %s is (re)written before every CAS attempt" % exp,
                      "the CAS on %s can be retried without re-linking the tail of the pushed list to the refreshed expected head: nodes pushed by other threads in "
                      "between are lost, or the list links into nodes another thread already adopted (double destruction / cycle)" % field, fn.where(c), fn=fn)
    # the node whose link is written must be the LAST node of the list that is handed over (finite execution of the walk that finds it)
    from .walk import ListWalk, Stuck
    rid_t = "LIST.true-tail"
    ctx.rule(rid_t, "hand-over of a whole list (abandoned retired nodes, thread-local LFRC free list): the node that is linked to the old head is the last node "
                    "of the list and the node that becomes the new head is its first node - the walk that finds the tail is executed on lists of 1..5 nodes "
                    "(finite evaluation of a pure pointer walk)")
    pat = R + "detail::thread_block_list::abandon_retired_nodes"
    for fn in flow._shapes(ctx, pat):
        cas = flow.find(fn, {"k": "call", "field": "abandoned_retired_nodes", "kind": "cas"})
        links = [e for b, i, e, n in fn.events() if n["k"] == "bin" and n["op"] == "=" and fn.nodes[fn.kids(e)[0]]["k"] == "member" and
                 fn.nodes[fn.kids(e)[0]].get("leaf") == "next" and flow.has_src(fn, fn.kids(e)[1], "load:abandoned_retired_nodes")]
        if not cas or not links or not fn.params:
            ctx.broken.append("abandon_retired_nodes: push idiom not recognised")
            continue
        bad = None
        try:
            for n_ in range(1, 6):
                w = ListWalk(fn, n_)
                w.env[fn.params[0]["name"]] = 1
                stop_at = w.run(lambda f, e: f.atomic(e) is not None)
                if stop_at is None:
                    raise Stuck("no shared operation reached")
                tail = w.ev(fn.kids(fn.kids(links[0])[0])[0])
                first = w.ev(fn.kids(cas[0])[2])
                if tail != n_ or first != 1:
                    bad = (n_, tail, first)
                    break
        except Stuck as ex:
            ctx.broken.append("abandon_retired_nodes: tail walk not executable (%s)" % ex)
            continue
        ctx.exhaustive[rid_t] = True
        ctx.check(bad is None, rid_t, pat + "#links-true-tail", "for lists of 1..5 nodes the linked node is the last and the installed node the first",
                  "for a list of %d retired nodes the node linked to the old head is node #%s (the last is #%d) and node #%s is installed: the nodes behind the linked "
                  "one are cut off and never destroyed" % (bad[0] if bad else 0, bad[1] if bad else "", bad[0] if bad else 0, bad[2] if bad else ""), fn.where(links[0]), fn=fn)
    pat = R + "lock_free_ref_count::enable_concurrent_ptr::free_list::thread_local_free_list::~thread_local_free_list"
    for fn in ctx.facts.shapes(pat):
        adds = flow.find(fn, call("add_nodes"))
        if not adds:
            ctx.bad(rid_t, pat + "#hands-over", "the thread-local free list is not handed to the global free list at thread exit", fn.where(), fn=fn)
            continue
        # nodes on the global free list are in the *free* representation (claim bit set, no reference): a node that went through
        # thread_local_free_list::pop() - which converts it to the allocated representation - must not be handed to add_nodes
        rid_c = "LFRC.thread-exit"
        conv = []
        for a_ in adds:
            for x in fn.kids(a_)[1:]:
                for t in flow.srcs(fn, x):
                    if t.startswith("call:"):
                        for cf in [g for q, gs in ctx.facts.by_pat.items() if q.endswith("thread_local_free_list::" + t[5:]) for g in gs]:
                            if any("ref_count" in at["field"] and at["kind"] in ("rmw", "store", "cas") for at in cf.atomics()):
                                conv.append((a_, t[5:]))
        ctx.check(not conv, rid_c, pat + "#handed-over-in-free-representation", "add_nodes receives nodes taken directly from the local list",
                  "the nodes handed to the global free list were obtained through %s(), which rewrites ref_count (claim bit cleared, one reference): the next thread that "
                  "pops such a node from the global list ends up with a stale claim bit, decrement_refcnt never reports the final release, the node is never destroyed and "
                  "never returns to a free list" % (conv[0][1] if conv else ""), fn.where(conv[0][0]) if conv else fn.where(), fn=fn)
        if conv:
            continue
        bad = None
        try:
            for n_ in range(1, 6):
                w = ListWalk(fn, n_, head_field="head")
                stop_at = w.run(lambda f, e: e in adds)
                if stop_at is None:
                    raise Stuck("add_nodes not reached for a non-empty list")
                args = fn.kids(adds[0])[-2:]
                first, last = w.ev(args[0]), w.ev(args[1])
                if first != 1 or last != n_:
                    bad = (n_, first, last)
                    break
        except Stuck as ex:
            ctx.broken.append("~thread_local_free_list: walk not executable (%s)" % ex)
            continue
        ctx.check(bad is None, rid_t, pat + "#first-last", "for lists of 1..5 nodes add_nodes(first, last) receives the true first and last node",
                  "for a local free list of %d nodes add_nodes receives (first #%s, last #%s)" % (bad or (0, 0, 0)), fn.where(adds[0]), fn=fn)
    # stamp-it: the multi-chunk chain built by process_global_nodes is handed back with the (first, last) overload
    S = R + "stamp_it::thread_data::process_global_nodes"
    for fn in flow._shapes(ctx, S):
        calls = flow.find(fn, call("add_to_global_retired_nodes"))
        chain_built = any("next_chunk" in fn.expr(e) for b, i, e, n in fn.events() if n["k"] in ("bin", "un") )
        for c in calls:
            nargs = len(fn.kids(c)) - 1
            ctx.check(nargs >= 2 or not chain_built, "STAMP.handback-chain", S + "#hands-back-whole-chain", "remaining chunks handed back as (first, last)",
                      "process_global_nodes chains the chunks it could not reclaim through next_chunk but hands back only a single chunk (one-argument overload "
                      "overwrites next_chunk): every further unreclaimable chunk is dropped and never destroyed", fn.where(c), fn=fn)
        ctx.rule("STAMP.handback-chain", "stamp-it: chunks that could not be reclaimed by the last leaver are handed back to the global list as a whole chain")
        ctx.check(bool(calls), "STAMP.handback-chain", S + "#hands-back", "unreclaimable chunks are handed back", "unreclaimable chunks are never handed back to the global list", fn.where(), fn=fn)


def epoch_adopt_resync(ctx):
    """a control block that is taken over (fresh or adopted from an exited thread) is brought in line with the global epoch, and so is the
    THREAD-LOCAL retire-slot index that belongs to it"""
    rid = "EBR.adopt-resync"
    ctx.rule(rid, "generic_epoch_based::thread_data::acquire_control_block: on every path from the acquisition of the control block to the return, the "
                  "block's local_epoch is stored and the thread-local local_epoch_idx is assigned from that same freshly loaded global epoch "
                  "(unconditionally): local_epoch lives in the block and survives its previous owner, local_epoch_idx belongs to the thread and starts at "
                  "0 - if the assignment is skipped when the adopted block already holds the current epoch, the thread files its retired nodes under the "
                  "wrong epoch slot and they are freed up to two epochs early")
    P = "xenium::reclamation::generic_epoch_based::thread_data::acquire_control_block"
    for fn in flow._shapes(ctx, P):
        acq = [e for b, i, e, n in fn.events() if n["k"] == "call" and n.get("callee", "").endswith("::acquire_entry")]
        if not acq:
            ctx.broken.append("acquire_control_block: acquire_entry call not found")
            continue
        idx_defs = []
        for b, i, e, n in fn.events():
            if n["k"] == "bin" and n.get("op") == "=":
                k = fn.kids(e)
                if fn.nodes[k[0]]["k"] == "member" and fn.nodes[k[0]].get("leaf") == "local_epoch_idx" and flow.has_src(fn, k[1], "load:global_epoch"):
                    idx_defs.append(e)
        st = [a["nid"] for a in fn.atomics() if a["kind"] == "store" and a["field"].endswith("::local_epoch") and flow.has_src(fn, fn.kids(a["nid"])[1], "load:global_epoch")]
        ok1, p1 = (flow.always_after(fn, acq[0], idx_defs) if idx_defs else (False, []))
        ok2, p2 = (flow.always_after(fn, acq[0], st) if st else (False, []))
        ctx.check(ok1, rid, P + "#local_epoch_idx", "local_epoch_idx is re-derived from the global epoch on every path",
                  "there is a path from acquire_entry() to the return on which the thread-local local_epoch_idx is not assigned from the global epoch: a thread that adopts "
                  "a block whose local_epoch already equals the global epoch keeps index 0 and retires into the wrong epoch slot (nodes freed while a guard from the "
                  "retirement epoch is live)", fn.where(acq[0]), fn=fn, path=flow.describe_path(fn, p1))
        ctx.check(ok2, rid, P + "#local_epoch", "the block's local_epoch is stored from the global epoch on every path",
                  "there is a path from acquire_entry() to the return on which the adopted block's local_epoch is not set to the global epoch", fn.where(acq[0]), fn=fn,
                  path=flow.describe_path(fn, p2))


def _gather_step(ctx, pat, gather_leaf):
    """the gather loop of a scan: std::for_each over the thread block list with a lambda, or - when the lambda was replaced by a plain loop - the
    start of the iteration over the thread block list (begin() is evaluated unconditionally in front of the loop)"""
    for fn in ctx.facts.shapes(pat):
        if flow.find(fn, call("std::for_each")):
            return call("std::for_each", desc="gather loop")
    return call("thread_block_list::begin", desc="gather loop (range-for over the thread block list)")


def new_block_init_before_link(ctx):
    """dynamic HP/HE strategies: a freshly allocated slot block is initialised while it is still unlinked"""
    for rid, pat in (("HP.block-init", R + "detail::dynamic_hp_thread_control_block::allocate_new_hazard_pointer_block"),
                     ("HE.block-init", R + "detail::dynamic_he_thread_control_block::allocate_new_hazard_eras_block")):
        for fn in flow._shapes(ctx, pat):
            inits = [e for b, i, e, n in fn.events() if n["k"] == "call" and n.get("callee", "").split("::")[-1] == "initialize_block"]
            links = []
            for b, i, e, n in fn.events():
                if n["k"] == "bin" and n.get("op") == "=":
                    k = fn.kids(e)
                    if fn.nodes[k[0]]["k"] == "member" and fn.nodes[k[0]].get("leaf") == "next":
                        links.append(e)
            if not inits or not links:
                ctx.broken.append("%s: initialize_block call / store to block->next not found" % pat)
                continue
            ok = all(fn.before(i_, l_) and not fn.event_reaches(l_, i_) for i_ in inits for l_ in links)
            ctx.check(ok, rid, pat + "#new-block|initialised-before-linked", "the new block is initialised before its next link is set",
                      "the new block's 'next' is pointed at the existing blocks BEFORE initialize_block() runs: initialize_block ends with initialize_next_block(), "
                      "which re-threads every following block (meant for control-block re-use) - the slots of the older blocks, in use by live guards, lose their "
                      "published value and are put back on the free list (guards silently stop protecting, slots are handed out twice)", fn.where(links[0]), fn=fn)


def acquire_snapshot_whole_value(ctx):
    """C15: guard_ptr::acquire yields a snapshot (pointer AND mark) the source held during the call"""
    rid = "GUARD.acquire-snapshot"
    ctx.rule(rid, "guard_ptr::acquire / acquire_if_equal of every scheme: a test that lets the operation keep the guard's current value (early return without "
                  "assigning the freshly loaded value) compares the whole marked_ptr (operator== of marked_ptr), never only the addresses (.get() == .get()): "
                  "after a mark-only change of the source the guard would keep a (pointer, mark) pair the source did not hold during the call")
    n_seen = 0
    for fn in ctx.facts.fns:
        if not re.match(r"^xenium::reclamation::[a-z_]+::guard_ptr::(acquire|acquire_if_equal)$", fn.pat):
            continue
        for b, blk in fn.blocks.items():
            if "cond" not in blk or b not in fn.live_blocks():
                continue
            for x in fn.subtree(blk["cond"]):
                n = fn.nodes[x]
                k = fn.kids(x)
                is_raw_eq = n["k"] == "bin" and n.get("op") in ("==", "!=") and len(k) == 2
                is_mp_eq = n["k"] == "call" and n.get("callee", "").split("::")[-1] in ("operator==", "operator!=")
                if not (is_raw_eq or is_mp_eq):
                    continue
                ops = k if is_raw_eq else k[-2:]
                if len(ops) != 2:
                    continue
                s0, s1 = flow.srcs(fn, ops[0]), flow.srcs(fn, ops[1])
                cur = lambda s: "field:ptr" in s
                fresh = lambda s: any(t.startswith("load:") for t in s)
                if not ((cur(s0) and fresh(s1) and not cur(s1)) or (cur(s1) and fresh(s0) and not cur(s0))):
                    continue
                n_seen += 1
                strips = any(fn.nodes[y]["k"] == "call" and fn.nodes[y].get("callee", "").split("::")[-1] == "get" for o in ops for y in fn.subtree(o))
                ctx.check(not (is_raw_eq and strips), rid, "%s#keep-current|whole-value" % fn.pat, "the guard's value is compared as a whole marked_ptr",
                          "%s compares only the addresses of the freshly loaded value and the guard's current value (%s): when only the mark of the source changed, the "
                          "guard keeps its stale mark - a value the source did not hold during the call; acquire_if_equal(src, snapshot) right afterwards returns "
                          "false without any concurrent writer" % (fn.pat.split("::")[-1], fn.expr(x)[:60]), fn.where(x), fn=fn)
    if n_seen < 1:
        ctx.broken.append("GUARD.acquire-snapshot: no 'keep the current value' test found in any guard_ptr::acquire (hazard_pointer has one)")


def retire_list_pairing(ctx):
    rid = "LIST.head-tail-paired"
    ctx.rule(rid, "retire_list keeps (first, last) paired: wherever first is reset to null (constructor, steal) last is reset on the same path - push() "
                  "sets last only when it is null, so a stale last survives into the next batch, and the hand-over at thread exit (orphan_list::add) "
                  "links the global list behind a node of an earlier, already destroyed batch: the nodes already in the orphan list are cut off and "
                  "never destroyed")
    n = 0
    for pat in (R + "detail::retire_list::steal", R + "detail::retire_list::retire_list"):
        for fn in flow._shapes(ctx, pat):
            firsts, lasts = [], []
            for b, i, e, nd in fn.events():
                if nd["k"] == "bin" and nd.get("op") == "=":
                    k = fn.kids(e)
                    ln = fn.nodes[k[0]]
                    if ln["k"] == "member" and ln.get("leaf") in ("first", "last") and fn.nodes[k[1]]["k"] in ("null", "lit", "cast") and "nullptr" in fn.expr(k[1]):
                        (firsts if ln["leaf"] == "first" else lasts).append(e)
            if not firsts:
                continue
            n += 1
            ok = bool(lasts) and all(flow.always_after(fn, f_, lasts)[0] or any(fn.before(l_, f_) for l_ in lasts) for f_ in firsts)
            ctx.check(ok, rid, pat + "#first-null=>last-null", "first and last are reset together",
                      "first is reset to null without resetting last on the same path: the next push() keeps the stale last (it only sets last when it is null), and the "
                      "list's tail pointer then refers to a node of the previous, already reclaimed batch", fn.where(firsts[0]), fn=fn)
    if n < 1:
        ctx.broken.append("LIST.head-tail-paired: retire_list::steal not found / does not reset first")


def delete_objects_walk(ctx):
    """DEL.delete-objects: detail::delete_objects (the one routine through which every epoch-based scheme, QSBR and the orphan hand-over destroy a
    retire list) executed on lists of 1..5 nodes: every node is told to delete itself exactly once, its link is read before that, and the
    caller's list head is null afterwards; orphan::~orphan applies it to every retire list it took over."""
    from .walk import ListWalk, Stuck
    rid = "DEL.delete-objects"
    ctx.rule(rid, "delete_objects, executed on lists of 1..5 retired nodes, calls delete_self on every node exactly once, reads a node's link only "
                  "before that call, detaches the list from the caller's head BEFORE the first deleter runs (deleters may retire further objects), and leaves the list empty; the destructor of an orphan applies it to each of its retire lists")
    pat = R + "detail::delete_objects"
    for fn in flow._shapes(ctx, pat):
        bad = None
        try:
            for n_ in range(1, 6):
                w = ListWalk(fn, n_)
                w.env[fn.params[0]["name"]] = 1
                deleted = []
                attached = []

                def on_event(w_, e, deleted=deleted, attached=attached):
                    n = fn.nodes[e]
                    if n["k"] == "call" and n.get("callee", "").split("::")[-1] == "delete_self":
                        v = w_.ev(fn.kids(e)[0])
                        deleted.append(v)
                        w_.freed.add(v)
                        if w_.env.get(fn.params[0]["name"]) != 0:
                            attached.append(v)
                w.run(lambda f, e: False, on_event=on_event)
                if w.read_after_free:
                    bad = "list of %d: the link of node #%d is read after the node deleted itself" % (n_, w.read_after_free[0])
                elif sorted(deleted) != list(range(1, n_ + 1)):
                    bad = "list of %d: delete_self called on nodes %s" % (n_, deleted)
                elif w.env.get(fn.params[0]["name"]) != 0:
                    bad = "list of %d: the caller's list head is not reset (the nodes would be destroyed again by the next sweep)" % n_
                elif attached:
                    bad = ("list of %d: node #%d deletes itself while the caller's list head still refers to the list - a deleter that retires another object "
                           "(a parent whose destructor retires its child) pushes it onto that list, and the reset that follows the walk drops it: the object is "
                           "never destroyed (F25)" % (n_, attached[0]))
                if bad:
                    break
        except Stuck as ex:
            ctx.broken.append("delete_objects: walk not executable (%s)" % ex)
            continue
        ctx.exhaustive[rid] = True
        ctx.check(bad is None, rid, pat + "#each-once", "lists of 1..5: each node deleted once, link read first, list head reset",
                  "%s: retired objects are leaked, destroyed twice or read after destruction" % bad, fn.where(), fn=fn)
    pat = R + "detail::orphan::~orphan"
    for fn in flow._shapes(ctx, pat):
        d = flow.find(fn, call("delete_objects"))
        ok = False
        if d:
            # range-for over retire_lists: the call sits in a loop whose range is the member array itself
            txt = " ".join(fn.expr(e) for b, i, e, n in fn.events())
            ok = "retire_lists" in txt and any(len(fn.blocks[b]["succ"]) == 2 for b in fn.live_blocks())
        ctx.check(ok, rid, pat + "#every-list", "delete_objects applied in a loop over retire_lists",
                  "an orphan that is destroyed (queue of orphans drained at shutdown / adopted) must destroy every retire list it holds", fn.where(), fn=fn)


def noexcept_never_exhausts(ctx):
    """HP.slots / HE.slots: slot exhaustion is *reported* (bad_hazard_pointer_alloc / bad_hazard_era_alloc) - so no function of the reclaimers that is
    declared noexcept may reach the throwing allocation: the exception would become std::terminate.  Call graph over resolved callees; constructor
    overloads are told apart by arity and by the kind of their first parameter (guard / marked_ptr / concurrent_ptr)."""
    facts = ctx.facts

    def lib(fn):
        return fn.file.startswith("xenium/") or "/xenium/" in fn.file

    def kind(t):
        t = t or ""
        return "guard" if "guard_ptr" in t else "marked" if "marked_ptr" in t else "concurrent" if ("concurrent_ptr" in t or "atomic" in t) else "other"

    def callees(fn):
        for b, i, e, n in fn.events():
            if n["k"] in ("call", "construct") and n.get("xen") and n.get("callee"):
                cands = facts.shapes(n["callee"])
                if n["k"] == "construct":
                    args = fn.kids(e)
                    c2 = [c for c in cands if len(c.params) == len(args)]
                    if len({c.line for c in c2}) > 1 and args:
                        ak = kind(fn.nodes[args[0]].get("t"))
                        c2 = [c for c in c2 if kind(c.params[0].get("t")) == ak] or c2
                    cands = c2
                yield e, cands
    memo = {}

    def reach(fn, depth=0, stack=()):
        key = id(fn)
        if key in memo:
            return memo[key]
        if key in stack or depth > 12:
            return None
        for b, i, e, n in fn.events():
            if n["k"] == "throw" and "bad_hazard" in fn.expr(e):
                memo[key] = [(fn, e)]
                return memo[key]
        res = None
        for e, cands in callees(fn):
            for c in cands:
                if lib(c):
                    r = reach(c, depth + 1, stack + (key,))
                    if r:
                        res = [(fn, e)] + r
                        break
            if res:
                break
        memo[key] = res
        return res
    for rid, sub in (("HP.slots", "reclamation/impl/hazard_pointer.hpp"), ("HE.slots", "reclamation/impl/hazard_eras.hpp")):
        n = 0
        seen = set()
        for fn in facts.fns:
            if not fn.file.endswith(sub) or not fn.rec.get("nothrow") or fn.rec.get("dtor") or (fn.pat, fn.line) in seen:
                continue
            seen.add((fn.pat, fn.line))
            n += 1
            r = reach(fn)
            ctx.check(r is None, rid, "%s@%d#noexcept-never-reaches-exhaustion" % (fn.pat, fn.line) if r else fn.pat + "#noexcept-never-reaches-exhaustion",
                      "declared noexcept, no path to the exhaustion throw",
                      "declared noexcept but reaches the slot-exhaustion throw (%s): with a static allocation strategy and all slots in use the documented "
                      "exception becomes std::terminate instead of being reported to the caller" % (
                          " -> ".join("%s:%d" % (a.pat.split("::")[-1], a.nodes[b].get("l", a.line)) for a, b in r) if r else ""), fn.where(), fn=fn)
        if n < 5:
            ctx.broken.append("%s: only %d noexcept functions analysed in %s" % (rid, n, sub))
