"""C14 seqlock rules."""
from . import flow
from .flow import chain, guarded, present
from .evalx import evalx, run_until, Unknown
from .schemes import call, FENCE_ACQ

S = "xenium::seqlock::"
FENCE_REL = {"k": "call", "kind": "fence", "pred": lambda fn, nid: fn.atomic(nid)["orders"][0] in ("release", "acq_rel", "seq_cst"), "desc": "release fence"}


def _loop_trip_constant(fn):
    """the constant bound of the (single) copy loop: a conditional block inside a CFG cycle whose condition compares against a
    compile-time constant, or a pointer end defined as begin + constant"""
    found = []
    for b, blk in fn.blocks.items():
        if "cond" not in blk or blk.get("term") not in ("ForStmt", "WhileStmt", "DoStmt"):
            continue
        n = fn.nodes[blk["cond"]]
        if n["k"] != "bin" or n["op"] not in ("<", "!=", "<=", ">"):
            continue
        for side in fn.kids(blk["cond"]):
            sn = fn.nodes[side]
            if "v" in sn:
                found.append(sn["v"] + (1 if n["op"] == "<=" else 0))
            elif sn["k"] == "ref" and sn.get("dk") == "local":
                d = flow.unique_def(fn, sn["name"])
                if d is not None and fn.nodes[d]["k"] == "bin" and fn.nodes[d]["op"] == "+":
                    for s2 in fn.kids(d):
                        if "v" in fn.nodes[s2]:
                            found.append(fn.nodes[s2]["v"])
    return found


def rules(ctx):
    rid = "SL.copy-coverage"
    ctx.rule(rid, "for every instantiated seqlock<T>: the word loops of read_data/store_data move words*sizeof(word) bytes with "
                  "sizeof(T) <= words*sizeof(word) <= sizeof(storage_t), and the storage is aligned for std::atomic<word>")
    for fname, tparam, sparam in (("read_data", "dest", "src"), ("store_data", "src", "dest")):
        for fn in flow._shapes(ctx, S + fname):
            ps = {p["name"]: p for p in fn.params}
            inst = "%s%s#[%s]" % (S, fname, fn.insts[0].split("::" + fname)[0][-60:])
            if tparam not in ps or sparam not in ps or "sz" not in ps[tparam] or "sz" not in ps[sparam]:
                ctx.broken.append("seqlock::%s: parameters %s/%s not found" % (fname, tparam, sparam))
                continue
            szT, szS, alS = ps[tparam]["sz"], ps[sparam]["sz"], ps[sparam]["al"]
            ats = [a for a in fn.atomics() if a["kind"] in ("load", "store")]
            trips = _loop_trip_constant(fn)
            if not ats or not trips:
                ctx.broken.append("seqlock::%s: copy loop idiom not recognised (atomics=%d, constant loop bounds=%s)" % (fname, len(ats), trips))
                continue
            wordsz = 8  # std::atomic<uintptr_t>
            cls = ats[0].get("cls", "")
            if "unsigned int" in cls:
                wordsz = 4
            words = max(trips)
            moved = words * wordsz
            ok = moved >= szT and moved <= szS and alS >= wordsz
            ctx.check(ok, rid, inst, "sizeof(T)=%d, %d words x %d = %d bytes moved, storage %d bytes aligned %d" % (szT, words, wordsz, moved, szS, alS),
                      "seqlock<T> with sizeof(T)=%d: the copy loop moves %d x %d = %d bytes, storage is %d bytes aligned to %d "
                      "(bytes dropped or accessed beyond/misaligned storage)" % (szT, words, wordsz, moved, szS, alS), fn.where(), fn=fn)
    ctx.floor(rid, 6)

    rid = "SL.protocol"
    ctx.rule(rid, "seqlock protocol order: load = seq acquire-load, copy, acquire fence, seq reload, exit only on the distance test; "
                  "store/update = acquire_lock, (read), release fence, copy, release_lock; single-slot readers never copy while a write is pending")
    SEQ_LOAD = {"k": "call", "field": "_seq", "op": "load", "desc": "_seq.load"}
    for fn in flow._shapes(ctx, S + "load"):
        inst = S + "load#order[%s]" % fn.insts[0].split("::load")[0][-50:]
        rd = flow.find(fn, call("read_data"))
        sl = flow.find(fn, SEQ_LOAD)
        if not rd or len(sl) < 2:
            ctx.bad(rid, inst, "load() must read the sequence before and after copying the data (read_data calls: %d, _seq loads: %d)" % (len(rd), len(sl)), fn.where(), fn=fn)
            continue
        before = [s for s in sl if any(fn.before(s, r) for r in rd)]
        ok_after, path = flow.always_after(fn, rd[0], [s for s in sl if s not in before] or sl)
        ctx.check(bool(before) and ok_after and len([s for s in sl if s not in before]) >= 1, rid, inst, "seq load < read_data < seq reload",
                  "the data copy is not bracketed by two loads of the sequence", fn.where(rd[0]), fn=fn)
        # the return is reachable only via the true edge of the distance test
        rets = flow.find(fn, {"k": "return"})
        dist = lambda f, nid: f.nodes[nid]["k"] == "bin" and f.nodes[nid]["op"] in ("<", "<=", "==") and flow.has_src(f, nid, "load:_seq")
        for r in rets:
            ok, p, n = flow.only_via(fn, r, dist, True)
            ctx.check(ok and n > 0, rid, S + "load#exit|distance[%s]" % fn.insts[0].split("::load")[0][-50:], "return only through the distance test",
                      "load() can return without the sequence distance test succeeding", fn.where(r), fn=fn, path=flow.describe_path(fn, p))
        # distance bound: (seq2 - seq) < C with C <= 2*slots-1
        slots = None
        for e in flow.find(fn, {"k": "bin"}):
            n = fn.nodes[e]
            if n["op"] in ("<", "<=") and flow.has_src(fn, fn.kids(e)[0], "load:_seq") and fn.nodes[fn.kids(e)[0]]["k"] == "bin" and fn.nodes[fn.kids(e)[0]]["op"] == "-":
                kids = fn.kids(e)
                bound = fn.nodes[kids[1]].get("v")
                # slots from the expression (2*slots-1) => slots = (bound+1)/2 ; compare with the modulus used for the slot index
                mods = [fn.nodes[fn.kids(x)[1]].get("v") for x in flow.find(fn, {"k": "bin"}, live_only=True) if fn.nodes[x]["op"] in ("%", "%=")]
                mods = [m for m in mods if m]
                nslots = mods[0] if mods else 1
                lim = 2 * nslots - 1 + (1 if n["op"] == "<=" else 0)
                ctx.check(bound is not None and bound + (1 if n["op"] == "<=" else 0) <= 2 * nslots - 1 + (0), rid,
                          S + "load#distance-bound[slots=%d]" % nslots, "distance bound %s <= 2*%d-1" % (bound, nslots),
                          "reader accepts a copy although the sequence advanced by %s >= 2*slots-1 = %d (the slot may have been rewritten)" % (bound, 2 * nslots - 1),
                          fn.where(e), fn=fn)
        # single slot: read_data only while no write is pending, re-checked in every iteration
        if any("slots<" not in i or "slots<1>" in i for i in fn.insts) and flow.find(fn, call("is_write_pending")):
            for r in rd:
                ok, p, n = flow.only_via(fn, r, lambda f, nid: flow.node_matches(f, nid, call("is_write_pending")), False)
                ctx.check(ok and n > 0, rid, S + "load#single-slot-waits", "read_data only via the 'no write pending' edge, in every iteration",
                          "with a single slot the reader copies the data although a write may be pending (the pending test is not re-evaluated "
                          "on every retry)", fn.where(r), fn=fn, path=flow.describe_path(fn, p))
    for fn in flow._shapes(ctx, S + "load"):
        if any("slots<1>" in i or "slots<" not in i for i in fn.insts):
            if not flow.find(fn, call("is_write_pending")):
                ctx.bad(rid, S + "load#single-slot-waits", "single-slot load() never tests is_write_pending", fn.where(), fn=fn)
    chain(ctx, rid, S + "read_data", [{"k": "call", "kind": "load", "desc": "word load"}, dict(FENCE_ACQ)], label="loads<acquire-fence", mode="nobefore",
          why="the fence orders the relaxed word loads before the sequence reload")
    chain(ctx, rid, S + "store_data", [FENCE_REL, {"k": "call", "kind": "store", "desc": "word store"}], label="release-fence<stores")
    chain(ctx, rid, S + "store", [call("acquire_lock"), call("store_data"), call("release_lock")], label="lock<copy<unlock")
    chain(ctx, rid, S + "update", [call("acquire_lock"), call("read_data"), {"k": "call", "pred": lambda fn, nid: bool(fn.kids(nid)) and fn.nodes[fn.kids(nid)[0]]["k"] == "ref" and fn.nodes[fn.kids(nid)[0]].get("dk") == "param", "desc": "functor"}, call("store_data"), call("release_lock")],
          label="lock<read<func<write<unlock", why="update must be a read-modify-write under the writer lock (no lost updates)")
    guarded(ctx, rid, S + "acquire_lock", {"k": "return"}, {"k": "call", "field": "_seq", "kind": "cas"}, True, label="return|cas")
    guarded(ctx, rid, S + "acquire_lock", {"k": "call", "field": "_seq", "kind": "cas"}, call("is_write_pending"), False, label="cas|!pending")
    present(ctx, rid, S + "release_lock", {"k": "call", "field": "_seq", "op": "store"}, label="store")

    # the sequence counter selects the slot as (seq >> 1) % slots: when the counter wraps, the selection is continuous only if the slot count
    # divides 2^(bits-1); otherwise the wrap must be out of reach (a 64-bit counter)
    n_rec = 0
    for r in ctx.facts.records:
        if r["pat"] != "xenium::seqlock":
            continue
        sq = [f_ for f_ in r.get("fields", []) if f_["name"] == "_seq"]
        slots = r.get("consts", {}).get("slots")
        if not sq or not slots:
            continue
        n_rec += 1
        bits = sq[0]["size"] * 8
        ok = bits >= 64 or (slots & (slots - 1)) == 0
        ctx.check(ok, "SL.slot-index", S + "#sequence-width[slots=%d]" % slots, "%d-bit sequence counter, %d slots" % (bits, slots),
                  "the sequence counter has %d bits and %d slots: after 2^%d writes the counter wraps and (seq >> 1) %% %d jumps (2^%d is not a multiple of %d) - the writer "
                  "fills one slot and readers / update are sent to another: a load returns a value two writes old and an update is lost" % (bits, slots, bits - 1, slots, bits - 1, slots),
                  "xenium/seqlock.hpp")
    if n_rec < 3:
        ctx.broken.append("seqlock record layouts not found (%d)" % n_rec)
    # a write operation takes effect on every path: store()/update() never return without acquire_lock -> store_data -> release_lock
    for leaf in ("store", "update"):
        for fn in flow._shapes(ctx, S + leaf):
            must = [flow.find(fn, call("acquire_lock")), flow.find(fn, call("store_data")), flow.find(fn, call("release_lock"))]
            exits = [b for b in fn.live_blocks() if not [s_ for s_ in fn.blocks[b]["succ"] if s_ is not None]]
            skip = None
            for evs, what in zip(must, ("acquire_lock", "store_data", "release_lock")):
                blocks = {fn.pos()[e][0] for e in evs if e in fn.pos()}
                for xb in exits:
                    pth = flow._path(fn, fn.entry, xb, set(), blocks)
                    if pth is not None and xb not in blocks:
                        skip = (what, pth)
                        break
                if skip:
                    break
            ctx.check(skip is None, "SL.protocol", S + leaf + "#takes-effect-on-every-path", "every path through %s() passes acquire_lock, store_data and release_lock" % leaf,
                      "%s() can return without %s: the write is silently dropped (a store that is elided because another write is pending is lost when that writer is "
                      "an update() that has already read the old value; with several slots a later load returns the older value)" % (leaf, skip[0] if skip else ""),
                      fn.where(), fn=fn, path=flow.describe_path(fn, skip[1]) if skip else None)
    # slot index agreement by finite evaluation of the index expressions
    rid = "SL.slot-index"
    ctx.rule(rid, "writer and reader slot indices agree: a writer holding odd sequence s writes slot ((s>>1)+1)%slots, a reader of "
                  "sequence s reads slot (s>>1)%slots, update reads the current and writes the next slot (finite evaluation of the index expressions)")
    for fn in flow._shapes(ctx, S + "store"):
        sd = flow.find(fn, call("store_data"))
        if not sd:
            continue
        idx = fn.kids(fn.kids(sd[0])[2])  # this->_data[idx]
        _check_index(ctx, rid, fn, sd[0], lambda s, slots: ((s >> 1) + 1) % slots, "store")
    for fn in flow._shapes(ctx, S + "update"):
        for m, ref, lab in ((call("read_data"), lambda s, slots: (s >> 1) % slots, "update-read"), (call("store_data"), lambda s, slots: ((s >> 1) + 1) % slots, "update-write")):
            ev = flow.find(fn, m)
            if ev:
                _check_index(ctx, rid, fn, ev[0], ref, lab)
    for fn in flow._shapes(ctx, S + "load"):
        ev = flow.find(fn, call("read_data"))
        if ev:
            _check_index(ctx, rid, fn, ev[0], lambda s, slots: (s >> 1) % slots, "load", reader=True)


def _slots_of(fn):
    import re
    for i in fn.insts:
        m = re.search(r"slots<(\d+)>", i)
        if m:
            return int(m.group(1))
    return 1


def _check_index(ctx, rid, fn, call_nid, ref, label, reader=False):
    """finite execution: the function is interpreted for every sequence value s of a small range (the value the reader loads from _seq /
    the odd value acquire_lock() hands to a writer) up to the copy call, where the index argument _data[idx] is evaluated"""
    slots = _slots_of(fn)
    kids = fn.kids(call_nid)
    target = None
    for k in kids:
        n = fn.nodes[k]
        if n["k"] == "index" and fn.field_of(fn.kids(k)[0]).endswith("_data"):
            target = fn.kids(k)[1]
    inst = "%s%s#slot-index[slots=%d]" % (S, label, slots)
    if target is None:
        ctx.broken.append("seqlock %s: argument _data[idx] not found" % label)
        return
    bad = None
    n_eval = 0
    for s in range(0, 4 * slots + 6):
        seq = s | 1 if not reader else s  # writers hold an odd sequence; readers may see odd (multi-slot) or even
        if reader and slots == 1 and (seq & 1):
            continue
        env0 = {"load:_seq": seq, "call:acquire_lock": (lambda seq=seq: seq), "call:is_write_pending": (lambda x: x & 1), "slots": slots, "this.slots": slots}
        try:
            env, at = run_until(fn, env0, lambda f, e: e == call_nid)
            if at is None:
                raise Unknown("copy call not reached")
            got = evalx(fn, target, env)
            want = ref(seq, slots)
        except Unknown as e:
            ctx.broken.append("seqlock %s: slot index not evaluable for sequence %d (%s)" % (label, seq, e))
            return
        n_eval += 1
        if got != want:
            bad = (seq, got, want)
            break
    ctx.check(bad is None, rid, inst, "index expression agrees with the reference mapping on %d sequence values" % n_eval,
              "slot index of %s for sequence %s is %s, expected %s" % ((label,) + (bad or (0, 0, 0))), fn.where(call_nid), fn=fn)
    ctx.exhaustive.setdefault(rid, True)
