"""chase_work_stealing_deque / circular array rules (C12)."""
import re

from . import flow
from .flow import chain, guarded, present
from .evalx import evalx, eval_prefix, Unknown
from .schemes import call

D = "xenium::chase_work_stealing_deque::"
G = "xenium::detail::growing_circular_array::"
BOTTOM_STORE = {"k": "call", "field": "chase_work_stealing_deque::_bottom", "op": "store", "desc": "_bottom.store"}
TOP_CAS = {"k": "call", "field": "chase_work_stealing_deque::_top", "kind": "cas", "desc": "_top CAS"}


def rules(ctx):
    rid = "WSD.protocol"
    ctx.rule(rid, "Chase-Lev deque: the item is stored before _bottom is published; pop decrements _bottom (seq_cst) before reading _top (seq_cst) and "
                  "restores or commits _bottom on every exit; the last item is taken only by the winner of the CAS on _top; a thief reads the item before its CAS "
                  "and takes it only if the CAS succeeded")
    chain(ctx, rid, D + "try_push", [call("put"), BOTTOM_STORE], label="put<publish-bottom")
    guarded(ctx, rid, D + "try_push", call("grow"), call("can_grow"), True, label="grow|can_grow")
    for fn in flow._shapes(ctx, D + "try_push"):
        for r in [r for r in flow.find(fn, {"k": "return"}) if fn.kids(r) and fn.nodes[fn.kids(r)[0]].get("v") == 0]:
            ok, p, n = flow.only_via(fn, r, lambda f, nid: flow.node_matches(f, nid, call("can_grow")), False)
            ctx.check(ok and n > 0, rid, D + "try_push#false|cannot-grow", "push fails only when the container is full and cannot grow", "try_push can fail although the container could grow", fn.where(r), fn=fn)
    for fn in flow._shapes(ctx, D + "try_pop"):
        stores = flow.find(fn, BOTTOM_STORE)
        # the speculative decrement: the store to _bottom that precedes every other store to _bottom; the deciding load of _top: the one(s) after it
        dec = [s_ for s_ in stores if all(s_ == o or fn.before(s_, o) for o in stores)]
        tl = [e for e in flow.find(fn, {"k": "call", "field": "chase_work_stealing_deque::_top", "op": "load"}) if any(fn.before(d, e) for d in dec)]
        inst = D + "try_pop"
        if not dec or not tl:
            ctx.bad(rid, inst + "#dec<top-load", "try_pop must publish the decremented _bottom (first store to _bottom: %d) and re-read _top afterwards (loads after it: %d)" % (len(dec), len(tl)), fn.where(), fn=fn)
            continue
        ctx.check(all(any(fn.before(d, t) for d in dec) for t in tl), rid, inst + "#dec<top-load", "speculative decrement of _bottom precedes the seq_cst load of _top",
                  "_top is read before the decremented _bottom is published: owner and thief can both take the last item", fn.where(tl[0]), fn=fn)
        others = [s for s in stores if s not in dec]
        for r in flow.find(fn, {"k": "return"}):
            if not any(fn.before(d, r) for d in dec):
                continue
            val = fn.nodes[fn.kids(r)[0]].get("v") if fn.kids(r) else None
            if val == 0:
                ok, path = flow.must_pass(fn, r, others)
                ok = ok and any(fn.before(o, r) for o in others)
                ctx.check(ok, rid, inst + "#false-restores-bottom", "every failing exit after the decrement restores _bottom",
                          "try_pop returns false after decrementing _bottom without restoring it (the deque shrinks by a phantom element)", fn.where(r), fn=fn)
        # the b == t branch: item only via the CAS
        cas = flow.find(fn, TOP_CAS)
        ctx.check(bool(cas), rid, inst + "#last-item-cas", "last item decided by a CAS on _top", "try_pop does not race thieves for the last item with a CAS on _top", fn.where(), fn=fn)
        # after LOSING the CAS on _top the owner restores _bottom to the CURRENT top: the value it stores must be the CAS's own expected variable
        # (refreshed by the failed CAS) or a reload of _top - a copy of the pre-CAS top leaves _bottom == _top - 1 (size() wraps around, the
        # next push is lost or rejected)
        for c_ in cas:
            expn = fn.nodes[fn.kids(c_)[1]]
            succ_edges, _n = flow.licensed_edges(fn, lambda f, a_: True if a_ == c_ else None)
            for s_ in stores:
                if s_ in dec or not fn.event_reaches(c_, s_, removed_edges=succ_edges):
                    continue
                v_ = fn.kids(s_)[1]
                if not flow.has_src(fn, v_, "load:_top"):
                    continue
                names = {fn.nodes[x]["name"] for x in fn.subtree(v_) if fn.nodes[x]["k"] == "ref" and fn.nodes[x].get("dk") == "local"}
                fresh = (expn["k"] == "ref" and expn.get("name") in names) or any(fn.before(c_, l_) for l_ in flow.src_loads(fn, v_) if fn.atomic(l_)["field"].endswith("_top"))
                ctx.check(fresh, rid, inst + "#lost-cas-restores-current-top", "after a lost CAS _bottom is restored from the refreshed top",
                          "after losing the CAS on _top, _bottom is set to %s - a copy of _top taken BEFORE the CAS (the CAS refreshes only its own expected variable '%s'): "
                          "_bottom ends one below _top, size() wraps around and the next pushed item is lost (growing container) or rejected (fixed container)" % (
                              fn.expr(v_), expn.get("name", fn.expr(fn.kids(c_)[1]))), fn.where(s_), fn=fn)
        gt = lambda f, nid: flow.cmp_between(f, nid, (">", "<"), ["load:_bottom"], ["load:_top"])
        for r in [r for r in flow.find(fn, {"k": "return"}) if fn.kids(r) and fn.nodes[fn.kids(r)[0]].get("v") == 1]:
            ok1, p1, n1 = flow.only_via(fn, r, lambda f, nid: nid in cas or gt(f, nid), True)
            ctx.check(ok1 and n1 > 0, rid, inst + "#true|b>t-or-won-cas", "success only if more than one item was left or the CAS on _top was won",
                      "try_pop hands out the item without b > t and without winning the CAS on _top (item delivered twice)", fn.where(r), fn=fn)
    for fn in flow._shapes(ctx, D + "try_steal"):
        cas = flow.find(fn, TOP_CAS)
        gets = flow.find(fn, call("get"))
        inst = D + "try_steal"
        if not cas or not gets:
            ctx.bad(rid, inst + "#shape", "try_steal must read the item (%d) and CAS _top (%d)" % (len(gets), len(cas)), fn.where(), fn=fn)
            continue
        ctx.check(all(any(fn.before(g, c) for g in gets) for c in cas), rid, inst + "#read<cas", "the item is read before the CAS on _top",
                  "the thief reads the slot after its CAS: the owner may already have reused the slot", fn.where(cas[0]), fn=fn)
        for r in [r for r in flow.find(fn, {"k": "return"}) if fn.kids(r) and fn.nodes[fn.kids(r)[0]].get("v") == 1]:
            ok, p, n = flow.only_via(fn, r, lambda f, nid: nid in cas, True)
            ctx.check(ok and n > 0, rid, inst + "#true|won-cas", "a thief succeeds only if its CAS on _top succeeded", "try_steal reports success without winning the CAS", fn.where(r), fn=fn)
        sz = lambda f, nid: f.nodes[nid]["k"] == "bin" and f.nodes[nid]["op"] in ("<=", "<", ">", ">=") and flow.has_src(f, nid, "load:_bottom", "load:_top")
        for c in cas:
            ok, p, n = flow.only_via(fn, c, sz, False)
            ctx.check(ok and n > 0, rid, inst + "#cas|non-empty", "steal attempted only when size > 0", "a steal is attempted on an empty deque", fn.where(c), fn=fn)
        # a thief fails only because the deque was empty or because it lost the race for _top - never because of the item's value
        want = lambda f, nid: True if sz(f, nid) else (False if nid in cas else None)
        for r in [r for r in flow.find(fn, {"k": "return"}) if fn.kids(r) and fn.nodes[fn.kids(r)[0]].get("v") == 0]:
            ok, p, n = flow.only_via_want(fn, r, want, relicense=False)
            ctx.check(ok and n > 0, rid, inst + "#false|empty-or-lost-cas", "try_steal fails only on an empty deque or a lost CAS on _top",
                      "try_steal can report failure although the deque is not empty and no CAS on _top was lost (e.g. depending on the value of the item): the oldest "
                      "item is then never handed out to a thief and blocks every item behind it", fn.where(r), fn=fn, path=flow.describe_path(fn, p))

    # grow(bottom, top): the live range is handed over in the order the callee uses it
    for fn in flow._shapes(ctx, D + "try_push"):
        for g_ in flow.find(fn, call("grow")):
            args = fn.kids(g_)[1:]
            roles = _grow_roles(ctx)
            if roles is None or len(args) != 2:
                continue
            want = {roles["bound"]: "load:_bottom", roles["start"]: "load:_top"}
            ok = all(flow.has_src(fn, args[i_], want[i_]) and not flow.has_src(fn, args[i_], want[1 - i_]) for i_ in (0, 1))
            ctx.check(ok, rid, D + "try_push#grow(bottom,top)", "grow() receives _bottom as the end and _top as the start of the live range",
                      "grow() is called with (%s, %s) but its parameter #%d is the END of the range to re-index (the loop bound) and parameter #%d its START: with the "
                      "arguments swapped no live entry is moved to its new slot" % (fn.expr(args[0]), fn.expr(args[1]), roles["bound"], roles["start"]), fn.where(g_), fn=fn)

    rid2 = "WSD.index-mapping"
    ctx.rule(rid2, "circular array: masks (pow2-1) are only operands of '&'/'~'; grow() re-indexes with the same mapping as get_entry for the old and the doubled "
                   "capacity, its start index skips only positions that keep their slot, and the capacity is published after all copies "
                   "(finite evaluation of the loop-free index arithmetic over capacities 2,4,8 and every top in [0,4C))")
    for pat in (G + "grow", G + "get_entry"):
        for fn in flow._shapes(ctx, pat):
            masks = set()
            for b, i, e, n in fn.events():
                if n["k"] == "decl":
                    for v in n["vars"]:
                        if "init" in v:
                            d = fn.nodes[v["init"]]
                            if d["k"] == "bin" and d["op"] == "-" and fn.nodes[fn.kids(v["init"])[1]].get("v") == 1 and "mask" in v["name"]:
                                masks.add(v["name"])
            for e, n in enumerate(fn.nodes):
                if n["k"] == "bin" and n["op"] in ("%", "/", "*", "%="):
                    for k in fn.kids(e):
                        kn = fn.nodes[k]
                        if kn["k"] == "ref" and kn.get("name") in masks:
                            ctx.bad(rid2, pat + "#mask-kind(%s)" % kn["name"], "'%s' is a bit mask (pow2-1) but is used as an operand of '%s' at line %d: indexes are mapped to the wrong slot" % (
                                kn["name"], n["op"], n.get("l", 0)), fn.where(e), fn=fn)
            for m in masks:
                ctx.ok(rid2, pat + "#mask-kind(%s)" % m, "mask only used with '&' / '~' / '+' rounding", fn.where(), fn=fn)
    for fn in flow._shapes(ctx, G + "grow"):
        inst = G + "grow"
        cs = flow.find(fn, {"k": "call", "field": "_capacity", "op": "store", "desc": "_capacity.store"})
        cp = flow.find(fn, {"k": "call", "field": "_data[][]", "op": "store", "desc": "copy store"})
        ok = bool(cs) and bool(cp) and not any(fn.event_reaches(c, p) for c in cs for p in cp)
        ctx.check(ok, rid2, inst + "#copies<publish-capacity", "all copies precede the release store of the new capacity",
                  "the new capacity is published before the live items were copied (a thief indexes with the new capacity and reads an empty slot)", fn.where(), fn=fn)
        # finite evaluation of the index arithmetic (roles found structurally, not by name)
        loop_var = None
        for b, i, e, n in fn.events():
            if n["k"] == "un" and n["op"] in ("++",):
                k = fn.kids(e)
                if k and fn.nodes[k[0]]["k"] == "ref" and fn.nodes[k[0]].get("dk") == "local":
                    nm = fn.nodes[k[0]]["name"]
                    # the loop variable of the copy loop: its declaration has an initialiser and it is compared with the bottom parameter
                    loop_var = nm if any(blk.get("cond") is not None and nm in [fn.nodes[x].get("name") for x in fn.subtree(blk["cond"])] for blk in fn.blocks.values() if "cond" in blk) else loop_var

        def position_var(events):
            """the local used in the index of the _data access whose definition masks the loop variable"""
            for ev in events:
                for x in fn.subtree(fn.kids(ev)[0]):
                    xn = fn.nodes[x]
                    if xn["k"] == "ref" and xn.get("dk") == "local":
                        d = flow.unique_def(fn, xn["name"])
                        if d is not None and fn.nodes[d]["k"] == "bin" and fn.nodes[d]["op"] in ("&", "%") and loop_var in [fn.nodes[y].get("name") for y in fn.subtree(d)]:
                            return d
            return None
        lds = flow.find(fn, {"k": "call", "field": "_data[][]", "op": "load"})
        old_def = position_var(lds)
        new_def = position_var(cp)
        loop_locals = {"oldI": old_def, "newI": new_def}
        if loop_var is None or old_def is None or new_def is None or len(fn.params) < 2:
            ctx.broken.append("growing_circular_array::grow: copy-loop idiom not recognised (loop variable %s, old/new position %s/%s)" % (loop_var, old_def, new_def))
            continue
        P_BOTTOM, P_TOP = fn.params[0]["name"], fn.params[1]["name"]
        bad = None
        n_eval = 0
        try:
            for C in ((2, 4, 8) if ctx.tier != "thorough" else (2, 4, 8, 16, 32, 64)):
                for top in range(0, 4 * C):
                    for cnt in (C,):
                        bottom = top + cnt
                        env0 = {P_TOP: top, P_BOTTOM: bottom, "call:capacity": (lambda C=C: C)}
                        env, stop = eval_prefix(fn, env0)
                        inits = [v for b, i, e, n in fn.events() if n["k"] == "decl" for v in n["vars"] if v["name"] == loop_var and "init" in v]
                        if not inits:
                            raise Unknown("no start value")
                        start = evalx(fn, inits[0]["init"], env)
                        n_eval += 1

                        def moves(i):
                            e2 = dict(env)
                            e2[loop_var] = i
                            return evalx(fn, loop_locals["oldI"], e2) != evalx(fn, loop_locals["newI"], e2)

                        def want_new(i):
                            e2 = dict(env)
                            e2[loop_var] = i
                            return evalx(fn, loop_locals["newI"], e2)
                        # reference mapping of get_entry: idx & (capacity - 1)
                        for i in range(top, bottom):
                            e2 = dict(env)
                            e2[loop_var] = i
                            if evalx(fn, loop_locals["oldI"], e2) != (i & (C - 1)) or evalx(fn, loop_locals["newI"], e2) != (i & (2 * C - 1)):
                                bad = "C=%d i=%d: grow maps old/new position to %d/%d, get_entry maps to %d/%d" % (
                                    C, i, evalx(fn, loop_locals["oldI"], e2), evalx(fn, loop_locals["newI"], e2), i & (C - 1), i & (2 * C - 1))
                                break
                        if bad:
                            break
                        if start < top:
                            bad = "C=%d top=%d: copy starts at %d < top" % (C, top, start)
                            break
                        skipped = [i for i in range(top, min(start, bottom)) if moves(i)]
                        if skipped:
                            bad = "capacity %d, top %d, bottom %d: the copy loop starts at %d and skips index %d which changes its slot in the doubled array" % (C, top, bottom, start, skipped[0])
                            break
                        # the loop breaks at the first index that keeps its slot: all moving indexes in [start, bottom) must be contiguous from start
                        seen_keep = False
                        for i in range(start, bottom):
                            if not moves(i):
                                seen_keep = True
                            elif seen_keep:
                                bad = "capacity %d, top %d: index %d must move but the loop already stopped" % (C, top, i)
                                break
                        if bad:
                            break
                    if bad:
                        break
                if bad:
                    break
        except Unknown as ex:
            ctx.broken.append("growing_circular_array::grow: index arithmetic not evaluable (%s)" % ex)
            continue
        ctx.exhaustive[rid2] = True
        ctx.check(bad is None, rid2, inst + "#reindex-covers-live-range", "start index and old/new mapping agree with get_entry on %d (capacity, top) points" % n_eval,
                  "grow() re-indexing is wrong: %s" % bad, fn.where(), fn=fn)
    for fn in flow._shapes(ctx, G + "get_entry"):
        ok = any(n["k"] == "bin" and n["op"] in ("&", "&=") and flow.has_src(fn, e, "param#1") for e, n in enumerate(fn.nodes))
        ctx.check(ok, rid2, G + "get_entry#idx&(capacity-1)", "logical position reduced with & (capacity-1)", "get_entry does not reduce the position with the capacity mask", fn.where(), fn=fn)
    chain(ctx, rid2, G + "get", [{"k": "call", "field": "_capacity", "op": "load", "desc": "_capacity.load"}, call("get_entry")], label="capacity-load<index")


def _grow_roles(ctx):
    """which parameter of growing_circular_array::grow bounds the copy loop (end of the live range) and which one starts it"""
    for fn in ctx.facts.shapes(G + "grow"):
        if len(fn.params) != 2:
            return None
        for b, blk in fn.blocks.items():
            if "cond" in blk and blk.get("term") in ("ForStmt", "WhileStmt"):
                c = flow.eq_cmp(fn, blk["cond"])
                n = fn.nodes[blk["cond"]]
                if n["k"] == "bin" and n["op"] in ("<", "!=", "<=") and len(fn.kids(blk["cond"])) == 2:
                    rhs = fn.kids(blk["cond"])[1]
                    for i_ in (0, 1):
                        if flow.has_src(fn, rhs, "param#%d" % i_) and not flow.has_src(fn, rhs, "param#%d" % (1 - i_)):
                            return {"bound": i_, "start": 1 - i_}
    return None


def growth_bound(ctx):
    """can_grow() is the only guard of grow(): at the maximal capacity it must say no (grow() would index one past the bucket table)"""
    rid = "WSD.index-mapping"
    from .evalx import eval_pure
    mx = None
    for r in ctx.facts.records:
        if r["pat"] == G[:-2] and "max_capacity" in r.get("consts", {}):
            mx = r["consts"]["max_capacity"] if mx is None else min(mx, r["consts"]["max_capacity"])
    for fn in flow._shapes(ctx, G + "can_grow"):
        consts = [n_["v"] for n_ in fn.nodes if isinstance(n_.get("v"), int) and (n_.get("name", "").endswith("max_capacity") or n_.get("leaf") == "max_capacity")]
        m_ = consts[0] if consts else mx
        if not m_:
            ctx.broken.append("growing_circular_array::can_grow: max_capacity not found")
            continue
        try:
            at_max = eval_pure(fn, {"call:capacity": (lambda m_=m_: m_)})
            below = eval_pure(fn, {"call:capacity": (lambda m_=m_: m_ // 2)})
        except Unknown as ex:
            ctx.broken.append("can_grow not evaluable (%s)" % ex)
            continue
        ctx.check(not at_max and bool(below), rid, G + "can_grow#bound[max=%d]" % m_, "can_grow() is false at max_capacity and true below",
                  "can_grow() returns %s at capacity == max_capacity (%d) and %s at half of it: at the maximal capacity a full deque grows once more, grow() stores the new bucket "
                  "one past the bucket table (into the deque's own members) and the accepted item can never be returned" % (bool(at_max), m_, bool(below)), fn.where(), fn=fn)


def stable_slot(ctx):
    """in-place growth: a reader that maps an index to a slot with a capacity snapshot must re-validate the snapshot after reading the slot"""
    rid = "WSD.stable-slot"
    ctx.rule(rid, "growing_circular_array grows in place: grow() moves live indices to other slots and the vacated slots are re-used for new indices. A reader "
                  "(get) maps its index with a snapshot of the capacity, so the value it read is meaningful only if the capacity is unchanged afterwards: every "
                  "return of get() is licensed by 'capacity reloaded after the slot read == snapshot', the slot is read with at least acquire and written by put() "
                  "with at least release (otherwise a value stored after the growth can be observed together with the old capacity)")
    grows = ctx.facts.shapes(G + "grow")
    inplace = any(flow.find(fn, {"k": "call", "field": "_capacity", "op": "store"}) and [e for b, i, e, n in fn.events() if fn.atomic(e) and fn.atomic(e)["op"] == "store" and "_data" in fn.atomic(e)["field"]]
                  for fn in grows)
    if not grows:
        ctx.broken.append("growing_circular_array::grow not instantiated")
        return
    if not inplace:
        ctx.ok(rid, G + "grow#in-place", "grow() does not move entries in place", "", nontrivial=False)
        return
    CAP = {"k": "call", "field": "_capacity", "op": "load"}

    def weakest_ok(orders, need):
        # orders: recorded order strings of the slot access; need: 'acquire' / 'release'
        ok_set = {"acquire": ("acquire", "acq_rel", "seq_cst"), "release": ("release", "acq_rel", "seq_cst")}[need]
        for o in orders:
            alts = o[5:-1].split("|") if o.startswith("cond(") else [o]
            for a_ in alts:
                if a_ in ok_set:
                    continue
                if a_.startswith("param:"):
                    continue   # caller supplied: checked through the upgrade test below
                return False
        return True

    def upgrades(fn, param, to):
        """the order parameter is raised before use: an assignment `order = memory_order_<to>` guarded by a test of that parameter, or a conditional expression"""
        for b, i, e, n in fn.events():
            if n["k"] == "bin" and n["op"] == "=" and fn.nodes[fn.kids(e)[0]].get("name") == param and to in fn.expr(fn.kids(e)[1]):
                return True
        return False

    for fn in flow._shapes(ctx, G + "get"):
        slots = [e for b, i, e, n in fn.events() if fn.atomic(e) and fn.atomic(e)["kind"] == "load" and not fn.atomic(e)["field"].endswith("_capacity")]
        caps = flow.find(fn, CAP)
        rets = [r for r in flow.find(fn, {"k": "return"}) if fn.kids(r)]
        inst = G + "get"
        if not slots or not caps or not rets:
            ctx.broken.append("growing_circular_array::get: slot read / capacity load / return not found")
            continue
        both_caps = flow.cmp_want(lambda f, x: flow.has_src(f, x, "load:_capacity"), lambda f, x: flow.has_src(f, x, "load:_capacity"))
        bad = None
        for r in rets:
            ok, path, n = flow.only_via_want(fn, r, both_caps)
            reval = any(fn.before(s, c) and fn.before(c, r) for s in slots for c in caps)
            if not (ok and n > 0 and reval):
                bad = r
        ctx.check(bad is None, rid, inst + "#revalidate-capacity", "every return is licensed by a capacity reload (after the slot read) that equals the snapshot",
                  "get() returns the value of the slot selected with a capacity snapshot without re-validating the capacity after the read: a thief that loaded the old "
                  "capacity reads, after a concurrent in-place grow(), a slot the owner has already re-used for a newer index - it steals the wrong item (one item lost, "
                  "another one delivered twice)", fn.where(bad) if bad is not None else fn.where(), fn=fn)
        o_ok = all(weakest_ok(fn.atomic(s)["orders"], "acquire") for s in slots) and all(
            not any(o.startswith("param:") for o in fn.atomic(s)["orders"]) or upgrades(fn, fn.atomic(s)["orders"][0][6:], "acquire") for s in slots)
        ctx.check(o_ok, rid, inst + "#slot-read-acquire", "the slot is read with at least acquire order",
                  "the slot is read with an order that can be relaxed: a value stored after a concurrent grow() can be observed while the capacity reload still returns the "
                  "old capacity", fn.where(slots[0]), fn=fn)
    for fn in flow._shapes(ctx, G + "put"):
        st = [e for b, i, e, n in fn.events() if fn.atomic(e) and fn.atomic(e)["op"] == "store" and not fn.atomic(e)["field"].endswith("_capacity")]
        if not st:
            ctx.broken.append("growing_circular_array::put: slot store not found")
            continue
        o_ok = all(weakest_ok(fn.atomic(s)["orders"], "release") for s in st) and all(
            not any(o.startswith("param:") for o in fn.atomic(s)["orders"]) or upgrades(fn, fn.atomic(s)["orders"][0][6:], "release") for s in st)
        ctx.check(o_ok, rid, G + "put#slot-store-release", "the slot is written with at least release order",
                  "put() can store the item with relaxed order: the store is not ordered after the capacity publication of a preceding grow(), so the re-validation in get() "
                  "cannot detect that the slot was re-used", fn.where(st[0]), fn=fn)


def index_width(ctx):
    """_bottom / _top are never reset: they count every push / steal of the deque's lifetime"""
    rid = "WSD.index-width"
    ctx.rule(rid, "chase_work_stealing_deque::_bottom and ::_top (monotone counters of all pushes / steals, compared by subtraction) are 64-bit words in every "
                  "instantiated layout: a 32-bit index wraps after 2^32 steals (minutes of traffic), after which try_pop sees bottom < top and drops the content")
    n = 0
    for r in ctx.facts.records:
        if r.get("pat") != D[:-2]:
            continue
        for fld in r.get("fields", []):
            if fld["name"] in ("_bottom", "_top"):
                n += 1
                ctx.check(fld.get("size", 0) >= 8, rid, D + fld["name"] + "[size=%s]" % fld.get("size"), "%s is %d bytes wide" % (fld["name"], fld.get("size", 0)),
                          "%s is only %s bytes wide (%s): the index is never reset, so it wraps after 2^%d pushes/steals; from then on bottom < top, try_pop "
                          "returns false and resets bottom to top (the content is dropped), try_steal computes a negative size, grow() copies nothing" % (
                              fld["name"], fld.get("size"), fld.get("t"), 8 * fld.get("size", 0)), "%s:%s" % (r.get("file", ""), r.get("line", "")))
    if n < 2:
        ctx.broken.append("WSD.index-width: layout of chase_work_stealing_deque (_bottom/_top) not found")


def grow_exception_safety(ctx):
    rid = "WSD.grow-exception-safe"
    ctx.rule(rid, "growing_circular_array::grow: the allocation of the new bucket (the only operation that can throw) is performed before any of the "
                  "array's own bookkeeping members (_buckets, _capacity) is modified: otherwise a bad_alloc leaves the bucket count ahead of the table and "
                  "the next growth stores its bucket one slot too far (null bucket dereferenced by the next push)")
    for fn in flow._shapes(ctx, G + "grow"):
        news = [e for b, i, e, n_ in fn.events() if n_["k"] == "new"]
        if not news:
            ctx.broken.append("growing_circular_array::grow: no allocation found")
            continue
        writes = []
        for b, i, e, n_ in fn.events():
            k = fn.kids(e)
            tgt = None
            if n_["k"] == "un" and n_.get("op") in ("++", "--") and k:
                tgt = k[0]
            elif n_["k"] == "bin" and n_.get("op", "").endswith("=") and n_["op"] not in ("==", "!=", "<=", ">=") and k:
                tgt = k[0]
            elif n_["k"] == "call" and fn.atomic(e) and fn.atomic(e)["kind"] in ("store", "rmw", "cas"):
                if fn.atomic(e)["field"].split("::")[-1] in ("_capacity", "_buckets"):
                    writes.append(e)
                continue
            if tgt is not None:
                tn = fn.nodes[tgt]
                if tn["k"] == "member" and tn.get("leaf") in ("_buckets", "_capacity") and fn.kids(tgt) and fn.nodes[fn.kids(tgt)[0]]["k"] == "this":
                    writes.append(e)
        if not writes:
            ctx.broken.append("growing_circular_array::grow: no bookkeeping write found")
            continue
        for w in writes:
            early = [nw for nw in news if fn.event_reaches(w, nw) or (w in fn.subtree(nw))]
            # a write that is a sub-expression of the statement which allocates (e.g. _data[_buckets++] = new ...) is also early: the increment is
            # sequenced before the allocation throws
            pos = fn.pos()
            for nw in news:
                if pos.get(w) and pos.get(nw) and pos[w][0] == pos[nw][0] and pos[w][1] < pos[nw][1] and nw not in early:
                    early.append(nw)
            ctx.check(not early, rid, G + "grow#%s|after-allocation" % fn.expr(w)[:30], "bookkeeping write happens after the allocation",
                      "%s is executed before the allocation of the new bucket (line %d): if the allocation throws, the array keeps a bucket count that is ahead "
                      "of its table" % (fn.expr(w)[:40], fn.nodes[early[0]].get("l", 0) if early else 0), fn.where(w), fn=fn)
