"""Finite evaluation of pure arithmetic expression trees (no program execution: only the AST of one expression is interpreted
with chosen values for its free variables).  Used to compare index mappings of sibling functions on a sample of inputs."""
from . import flow

WIDTH = {"unsigned long": 64, "unsigned int": 32, "unsigned short": 16, "unsigned char": 8, "unsigned long long": 64,
         "long": -64, "int": -32, "short": -16, "signed char": -8, "char": -8, "long long": -64, "bool": 1}


class Unknown(Exception):
    pass


def wrap(v, t):
    t = (t or "").replace("const ", "")
    w = WIDTH.get(t)
    if w is None or v is None:
        return v
    if w == 1:
        return 1 if v else 0
    if w > 0:
        return v & ((1 << w) - 1)
    w = -w
    v &= (1 << w) - 1
    return v - (1 << w) if v >= (1 << (w - 1)) else v


def evalx(fn, nid, env, depth=0):
    if depth > 40:
        raise Unknown("depth")
    n = fn.nodes[nid]
    k = n["k"]
    c = fn.kids(nid)
    if k == "ref":
        nm = n.get("name")
        if nm in env:
            return env[nm]
        if "v" in n:
            return n["v"]
        if n.get("dk") == "local":
            d = flow.unique_def(fn, nm)
            if d is not None:
                return evalx(fn, d, env, depth + 1)
        raise Unknown("free variable " + str(nm))
    if k == "member":
        nm = n.get("leaf")
        if ("this." + nm) in env:
            return env["this." + nm]
        if nm in env:
            return env[nm]
        if "v" in n:
            return n["v"]
        raise Unknown("member " + str(nm))
    if "v" in n and k not in ("bin", "un"):
        return n["v"]
    if k == "bin":
        op = n["op"]
        if op == "&&":
            return 1 if (evalx(fn, c[0], env, depth + 1) and evalx(fn, c[1], env, depth + 1)) else 0
        if op == "||":
            return 1 if (evalx(fn, c[0], env, depth + 1) or evalx(fn, c[1], env, depth + 1)) else 0
        a = evalx(fn, c[0], env, depth + 1)
        b = evalx(fn, c[1], env, depth + 1)
        try:
            r = {"+": lambda: a + b, "-": lambda: a - b, "*": lambda: a * b, "/": lambda: int(a / b) if b else None,
                 "%": lambda: (a - int(a / b) * b) if b else None, "<<": lambda: a << b, ">>": lambda: a >> b, "&": lambda: a & b,
                 "|": lambda: a | b, "^": lambda: a ^ b, "<": lambda: int(a < b), ">": lambda: int(a > b), "<=": lambda: int(a <= b),
                 ">=": lambda: int(a >= b), "==": lambda: int(a == b), "!=": lambda: int(a != b)}[op]()
        except KeyError:
            raise Unknown("op " + op)
        if r is None:
            raise Unknown("division by zero")
        return wrap(r, n.get("t"))
    if k == "un":
        a = evalx(fn, c[0], env, depth + 1)
        op = n["op"]
        if op == "-":
            return wrap(-a, n.get("t"))
        if op == "~":
            return wrap(~a, n.get("t"))
        if op == "!":
            return 0 if a else 1
        if op == "+":
            return a
        raise Unknown("unop " + op)
    if k == "cast":
        return wrap(evalx(fn, c[0], env, depth + 1), n.get("t"))
    if k == "cond":
        return evalx(fn, c[1] if evalx(fn, c[0], env, depth + 1) else c[2], env, depth + 1)
    if k == "call":
        leaf = n.get("callee", "").split("::")[-1]
        if leaf in ("min", "max") and len(c) == 2:
            a, b = evalx(fn, c[0], env, depth + 1), evalx(fn, c[1], env, depth + 1)
            return min(a, b) if leaf == "min" else max(a, b)
        if ("call:" + leaf) in env:
            f = env["call:" + leaf]
            return f(*[evalx(fn, x, env, depth + 1) for x in c[(1 if n.get("member") else 0):]])
        raise Unknown("call " + leaf)
    if k == "construct" and len(c) == 1:
        return evalx(fn, c[0], env, depth + 1)
    raise Unknown("node kind " + k)
