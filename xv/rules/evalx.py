"""Finite evaluation of pure arithmetic expression trees (no program execution: only the AST of one expression is interpreted
with chosen values for its free variables).  Used to compare index mappings of sibling functions on a sample of inputs."""
from . import flow

WIDTH = {"unsigned long": 64, "unsigned int": 32, "unsigned short": 16, "unsigned char": 8, "unsigned long long": 64,
         "long": -64, "int": -32, "short": -16, "signed char": -8, "char": -8, "long long": -64, "bool": 1}


class Unknown(Exception):
    pass


def wrap(v, t):
    t = (t or "").replace("const ", "")
    w = WIDTH.get(t)
    if w is None or v is None:
        return v
    if w == 1:
        return 1 if v else 0
    if w > 0:
        return v & ((1 << w) - 1)
    w = -w
    v &= (1 << w) - 1
    return v - (1 << w) if v >= (1 << (w - 1)) else v


def evalx(fn, nid, env, depth=0):
    if depth > 40:
        raise Unknown("depth")
    n = fn.nodes[nid]
    k = n["k"]
    c = fn.kids(nid)
    if k == "call" and n.get("inl_ret_var") and n["inl_ret_var"] in env:
        return env[n["inl_ret_var"]]           # value returned by a virtually inlined helper
    if k == "ref":
        nm = n.get("name")
        if nm in env:
            return env[nm]
        if "v" in n:
            return n["v"]
        if n.get("dk") == "local":
            d = flow.unique_def(fn, nm)
            if d is not None:
                return evalx(fn, d, env, depth + 1)
        raise Unknown("free variable " + str(nm))
    if k == "member":
        nm = n.get("leaf")
        if ("this." + nm) in env:
            return env["this." + nm]
        if nm in env:
            return env[nm]
        if "v" in n:
            return n["v"]
        raise Unknown("member " + str(nm))
    if "v" in n and k not in ("bin", "un"):
        return n["v"]
    if k == "bin":
        op = n["op"]
        if op == "&&":
            return 1 if (evalx(fn, c[0], env, depth + 1) and evalx(fn, c[1], env, depth + 1)) else 0
        if op == "||":
            return 1 if (evalx(fn, c[0], env, depth + 1) or evalx(fn, c[1], env, depth + 1)) else 0
        a = evalx(fn, c[0], env, depth + 1)
        b = evalx(fn, c[1], env, depth + 1)
        try:
            r = {"+": lambda: a + b, "-": lambda: a - b, "*": lambda: a * b, "/": lambda: int(a / b) if b else None,
                 "%": lambda: (a - int(a / b) * b) if b else None, "<<": lambda: a << b, ">>": lambda: a >> b, "&": lambda: a & b,
                 "|": lambda: a | b, "^": lambda: a ^ b, "<": lambda: int(a < b), ">": lambda: int(a > b), "<=": lambda: int(a <= b),
                 ">=": lambda: int(a >= b), "==": lambda: int(a == b), "!=": lambda: int(a != b)}[op]()
        except KeyError:
            raise Unknown("op " + op)
        if r is None:
            raise Unknown("division by zero")
        return wrap(r, n.get("t"))
    if k == "un":
        a = evalx(fn, c[0], env, depth + 1)
        op = n["op"]
        if op == "-":
            return wrap(-a, n.get("t"))
        if op == "~":
            return wrap(~a, n.get("t"))
        if op == "!":
            return 0 if a else 1
        if op == "+":
            return a
        raise Unknown("unop " + op)
    if k == "cast":
        return wrap(evalx(fn, c[0], env, depth + 1), n.get("t"))
    if k == "cond":
        return evalx(fn, c[1] if evalx(fn, c[0], env, depth + 1) else c[2], env, depth + 1)
    if k == "call":
        leaf = n.get("callee", "").split("::")[-1]
        if leaf == "load":
            a_ = fn.atomic(nid)
            key = ("load:" + a_["field"].split("::")[-1]) if a_ else None
            if key and key in env:
                v_ = env[key]
                return v_() if callable(v_) else v_
        if leaf in ("min", "max") and len(c) == 2:
            a, b = evalx(fn, c[0], env, depth + 1), evalx(fn, c[1], env, depth + 1)
            return min(a, b) if leaf == "min" else max(a, b)
        if ("call:" + leaf) in env:
            f = env["call:" + leaf]
            return f(*[evalx(fn, x, env, depth + 1) for x in c[(1 if n.get("member") else 0):]])
        raise Unknown("call " + leaf)
    if k == "construct" and len(c) == 1:
        return evalx(fn, c[0], env, depth + 1)
    raise Unknown("node kind " + k)


def _binop(op, a, b):
    if op in ("<<", ">>") and not (0 <= b < 128):
        raise Unknown("shift amount out of range")
    if op in ("%", "/") and not b:
        return 0
    return {"+": lambda: a + b, "-": lambda: a - b, "*": lambda: a * b, "&": lambda: a & b, "|": lambda: a | b, "^": lambda: a ^ b,
            "<<": lambda: a << b, ">>": lambda: a >> b, "%": lambda: a % b, "/": lambda: a // b}[op]()


def eval_prefix(fn, env, max_blocks=64):
    """Constant propagation over the loop-free prefix of a function for ONE point of a finite input grid: starting at the entry block,
    declarations / assignments of integer locals whose right-hand side is evaluable are recorded, evaluable branch conditions are
    followed, and the walk stops at the first loop header (or when a condition is not evaluable).  Returns (env, stop_block).
    No memory, no calls (other than the pure helpers given in env), no loops: this is not an execution of the function."""
    env = dict(env)
    b = fn.entry
    seen = set()
    loop_terms = ("ForStmt", "WhileStmt", "DoStmt", "CXXForRangeStmt")
    for _ in range(max_blocks):
        if b is None or b in seen:
            return env, b
        seen.add(b)
        blk = fn.blocks[b]
        if blk.get("term") in loop_terms and blk["elems"] == [] or (blk.get("term") in loop_terms):
            # evaluate the header's own events (loop condition operands) but do not enter the loop
            return env, b
        for e in blk["elems"]:
            n = fn.nodes[e]
            try:
                if n["k"] == "decl":
                    for v in n["vars"]:
                        if "init" in v:
                            try:
                                env[v["name"]] = evalx(fn, v["init"], env)
                            except Unknown:
                                env.pop(v["name"], None)
                elif n["k"] == "bin" and n["op"] in ("=", "+=", "-=", "*=", "&=", "|=", "^=", "<<=", ">>=", "%=", "/="):
                    c = fn.kids(e)
                    lhs = fn.nodes[c[0]]
                    if lhs["k"] == "ref" and lhs.get("dk") in ("local", "param"):
                        nm = lhs["name"]
                        try:
                            r = evalx(fn, c[1], env)
                            if n["op"] == "=":
                                env[nm] = wrap(r, lhs.get("t"))
                            elif nm in env:
                                a = env[nm]
                                op = n["op"][:-1]
                                val = _binop(op, a, r)
                                env[nm] = wrap(val, lhs.get("t"))
                        except Unknown:
                            env.pop(nm, None)
                elif n["k"] == "un" and n["op"] in ("++", "--"):
                    c = fn.kids(e)
                    lhs = fn.nodes[c[0]]
                    if lhs["k"] == "ref" and lhs.get("name") in env:
                        env[lhs["name"]] = wrap(env[lhs["name"]] + (1 if n["op"] == "++" else -1), lhs.get("t"))
            except Unknown:
                pass
        succ = blk["succ"]
        if "cond" in blk and len(succ) == 2:
            try:
                v = evalx(fn, blk["cond"], env)
            except Unknown:
                return env, b
            b = succ[0] if v else succ[1]
        elif len(succ) >= 1:
            b = succ[0]
        else:
            return env, b
    return env, b


def eval_pure(fn, env, max_blocks=64):
    """value returned by a loop-free, call-free function for one point of a finite input grid (constant propagation along the single feasible path)."""
    env = dict(env)
    b = fn.entry
    seen = set()
    for _ in range(max_blocks):
        if b is None or b in seen:
            raise Unknown("loop or dead end")
        seen.add(b)
        blk = fn.blocks[b]
        for e in blk["elems"]:
            n = fn.nodes[e]
            if n["k"] == "decl":
                for v in n["vars"]:
                    if "init" in v:
                        env[v["name"]] = evalx(fn, v["init"], env)
            elif n["k"] == "bin" and n["op"] == "=":
                c = fn.kids(e)
                if fn.nodes[c[0]]["k"] == "ref":
                    env[fn.nodes[c[0]]["name"]] = evalx(fn, c[1], env)
            elif n["k"] == "return":
                k = fn.kids(e)
                if not k:
                    raise Unknown("void return")
                return evalx(fn, k[0], env)
        succ = blk["succ"]
        if "cond" in blk and len(succ) == 2:
            v = evalx(fn, blk["cond"], env)
            b = succ[0] if v else succ[1]
        elif succ:
            b = succ[0]
        else:
            raise Unknown("no successor")
    raise Unknown("too long")


def run_until(fn, env, stop, max_steps=2000, on_event=None):
    """Finite execution of a function for ONE point of a finite input grid, following the single feasible path (loops included, bounded
    by max_steps) until an event for which stop(fn, nid) holds.  Integer locals only: declarations, (compound) assignments, ++/--; calls are
    evaluated through env["call:<leaf>"] callables (atomic loads: env["load:<field leaf>"]), values of virtually inlined helpers through their
    return variable.  Returns (env, stop event) - stop event None if the function returned first.  Raises Unknown when a branch condition
    cannot be evaluated.  This interprets the extracted CFG on chosen integers; no library code runs."""
    env = dict(env)

    def ev(nid):
        n = fn.nodes[nid]
        if n["k"] == "call":
            a = fn.atomic(nid)
            if a and a["kind"] == "load":
                key = "load:" + a["field"].split("::")[-1]
                if key in env:
                    v = env[key]
                    return v() if callable(v) else v
        return evalx(fn, nid, env)

    b = fn.entry
    steps = 0
    while b is not None:
        blk = fn.blocks[b]
        for e in blk["elems"]:
            steps += 1
            if steps > max_steps:
                raise Unknown("no termination within %d steps" % max_steps)
            n = fn.nodes[e]
            if stop(fn, e):
                return env, e
            if on_event is not None:
                on_event(fn, e, env)
            if n["k"] == "decl":
                for v in n["vars"]:
                    if "init" in v:
                        try:
                            env[v["name"]] = wrap(ev(v["init"]), v.get("t"))
                        except Unknown:
                            env.pop(v["name"], None)
            elif n["k"] == "bin" and n["op"] in ("=", "+=", "-=", "*=", "&=", "|=", "^=", "<<=", ">>=", "%=", "/="):
                c = fn.kids(e)
                lhs = fn.nodes[c[0]]
                if lhs["k"] == "ref" and lhs.get("dk") in ("local", "param"):
                    nm = lhs["name"]
                    try:
                        r = ev(c[1])
                        if n["op"] == "=":
                            env[nm] = wrap(r, lhs.get("t"))
                        elif nm in env:
                            a_ = env[nm]
                            op = n["op"][:-1]
                            val = _binop(op, a_, r)
                            env[nm] = wrap(val, lhs.get("t"))
                    except Unknown:
                        env.pop(nm, None)
            elif n["k"] == "un" and n["op"] in ("++", "--"):
                c = fn.kids(e)
                lhs = fn.nodes[c[0]]
                if lhs["k"] == "ref" and lhs.get("name") in env:
                    env[lhs["name"]] = wrap(env[lhs["name"]] + (1 if n["op"] == "++" else -1), lhs.get("t"))
            elif n["k"] == "return":
                return env, None
        succ = blk["succ"]
        if not succ or all(s is None for s in succ):
            return env, None
        if "cond" in blk and len(succ) == 2:
            b = succ[0] if ev(blk["cond"]) else succ[1]
        else:
            b = succ[0]
    return env, None
