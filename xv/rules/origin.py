"""K14 - origin of dereferenced node pointers in lock-free container code (C01, C09, C04, C06, C08, C10).

A pointer VALUE that was read from shared memory (atomic load / exchange / the failure result of a CAS is not modelled) may be dereferenced only
through a guard_ptr that acquired it: a raw snapshot says nothing about the node still being allocated.  The rule computes, for the base
expression of every dereference (x->f, *x, marked_ptr::operator->), the set of origins of its value through local definitions
(flow-insensitive, bounded) and reports a dereference with origin 'raw-load' unless the site is in the frozen exemption table below."""
from . import flow

# (file suffix, predicate over (fn, base node type), reason) - confirmed by reading the code
EXEMPT = [
    ("vyukov_hash_map.hpp", lambda fn, t: "extension_item" in t,
     "extension items are carved out of the block's own pool and are never freed before the block: the block is guarded (try_get_value: b) or the bucket is locked"),
    ("vyukov_hash_map.hpp", lambda fn, t: fn.pat.endswith("::do_grow") and "block" in t,
     "do_grow runs under the resize lock; the old block is retired by this very function at its end"),
    ("vyukov_hash_map_traits.hpp", lambda fn, t: fn.pat.endswith("::deref_iterator"),
     "called with the iterator's bucket lock held: the value node cannot be removed concurrently"),
]


def _is_dtor(fn):
    leaf = fn.pat.split("::")[-1]
    return leaf.startswith("~")


def origin(fn, nid, depth=0, seen=None):
    if seen is None:
        seen = set()
    out = set()
    if nid is None or nid < 0 or depth > 8 or nid in seen:
        return out
    seen.add(nid)
    n = fn.nodes[nid]
    k = n["k"]
    kids = fn.kids(nid)
    if k == "call":
        a = fn.atomic(nid)
        if a:
            if a["kind"] in ("load", "rmw"):
                out.add("raw-load:" + a["field"].split("::")[-1])
            return out
        leaf = n.get("callee", "?").split("::")[-1]
        if leaf == "acquire_guard":
            out.add("guard")
            return out
        if leaf in ("acquire", "acquire_if_equal") and n.get("member"):
            out.add("guard")
            return out
        if n.get("member") and kids:
            ot = fn.nodes[kids[0]].get("t", "")
            if "guard_ptr" in ot:
                out.add("guard")
                return out
            if leaf in ("get", "operator->", "operator*", "operator conv", "operator conv T *"):
                return origin(fn, kids[0], depth + 1, seen)
        if leaf in ("move", "forward", "addressof") or leaf.startswith("operator conv"):
            for c in kids:
                out |= origin(fn, c, depth + 1, seen)
            return out
        for x in n.get("inl_rets", ()):
            out |= origin(fn, x, depth + 1, seen)
        if not out:
            out.add("call:" + leaf)
        return out
    if k == "construct":
        if "guard_ptr" in n.get("t", "") or "guard_ptr" in n.get("callee", ""):
            out.add("guard")
            return out
        for c in kids:
            out |= origin(fn, c, depth + 1, seen)
        if not out:
            out.add("const")
        return out
    if k == "ref":
        if n.get("dk") == "param":
            out.add("guard" if "guard_ptr" in n.get("t", "") else "param")
            return out
        if n.get("dk") == "local":
            if "guard_ptr" in n.get("t", ""):
                out.add("guard")
                return out
            for d in flow.all_defs(fn, n["name"], n.get("vid")):
                out |= origin(fn, d, depth + 1, seen)
            if not out:
                out.add("local")
            return out
        out.add("global")
        return out
    if k == "member":
        if "guard_ptr" in n.get("t", ""):
            out.add("guard")
        else:
            out.add("field:" + str(n.get("leaf")))
        return out
    if k == "new":
        out.add("alloc")
        return out
    if k == "un" and n.get("op") == "&":
        out.add("addr")
        return out
    if k in ("lit", "null"):
        out.add("const")
        return out
    if k == "this":
        out.add("this")
        return out
    for c in kids:
        out |= origin(fn, c, depth + 1, seen)
    return out


def deref_sites(fn):
    """(event node, base node) of every dereference of a pointer-like value that is not a guard"""
    pos = fn.pos()
    for e, n in enumerate(fn.nodes):
        base = None
        kids = fn.kids(e)
        if n["k"] == "member" and n.get("arrow") and kids:
            base = kids[0]
            bn = fn.nodes[base]
            if bn["k"] == "call" and bn.get("callee", "").split("::")[-1] == "operator->":
                continue    # the operator-> call itself is the dereference site
        elif n["k"] == "call" and n.get("member") and kids and n.get("callee", "").split("::")[-1] in ("operator->", "operator*"):
            t = fn.nodes[kids[0]].get("t", "")
            if "guard_ptr" in t:
                yield e, kids[0], True
                continue
            if "marked_ptr" not in t:
                continue
            base = kids[0]
        elif n["k"] == "un" and n.get("op") == "*" and kids:
            base = kids[0]
        if base is None:
            continue
        if fn.nodes[base]["k"] == "this":
            continue
        yield e, base, False


def rules(ctx, file_suffixes, rid="GUARD.deref-origin", floor_guarded=0):
    ctx.rule(rid, "in lock-free container code (destructors excluded) a pointer value read from shared memory is dereferenced only through the "
                  "guard_ptr that acquired it; a dereference whose base value originates (through local definitions) from a raw atomic load is "
                  "reported unless the site is in the frozen exemption table (vyukov_hash_map extension items / old block under the resize "
                  "lock / locked iterator)")
    n_guarded = 0
    seen_bad = set()
    for fn in ctx.facts.fns:
        if not any(fn.file.endswith(s) or s in fn.file for s in file_suffixes) or "/reclamation/" in fn.file or "test/" in fn.file:
            continue
        if fn.inlined_helper or _is_dtor(fn):
            continue
        cnt = {"guard": 0, "exempt": 0, "other": 0}
        nbad = 0
        for e, base, guarded in deref_sites(fn):
            if guarded:
                n_guarded += 1
                cnt["guard"] += 1
                continue
            org = origin(fn, base)
            raw = sorted(o for o in org if o.startswith("raw-load"))
            if not raw:
                cnt["guard" if "guard" in org else "other"] += 1
                continue
            t = fn.nodes[base].get("t", "")
            ex = next((r for sfx, pred, r in EXEMPT if fn.file.endswith(sfx) and pred(fn, t)), None)
            if ex:
                cnt["exempt"] += 1
                continue
            nbad += 1
            inst = "%s#%s" % (fn.pat, fn.expr(e)[:40])
            if (inst, fn.nodes[e].get("l")) in seen_bad:
                continue
            seen_bad.add((inst, fn.nodes[e].get("l")))
            ctx.bad(rid, inst, "%s dereferences a pointer that was read from shared memory (%s) without a guard_ptr protecting it (line %d): the node "
                               "may already have been reclaimed" % (fn.expr(e)[:50], ", ".join(raw), fn.nodes[e].get("l", 0)), fn.where(e), fn=fn)
        if not nbad and (cnt["guard"] or cnt["exempt"]):
            ctx.ok(rid, fn.pat, "%d dereferences through a guard, %d exempt (table), %d of values that were not read from shared memory" % (
                cnt["guard"], cnt["exempt"], cnt["other"]), fn.where(), nontrivial=cnt["guard"] > 0, fn=fn)
    ctx.note("%s: %d dereferences through guard_ptr::operator-> / operator* seen" % (rid, n_guarded))
    if n_guarded < floor_guarded:
        ctx.broken.append("%s: only %d guarded dereferences found (floor %d): detector broken?" % (rid, n_guarded, floor_guarded))
    return n_guarded
