"""Queue rules (C04 michael_scott / ramalhete / nikolaev, C05 bounded queues, C06 k-FIFO, C07 element ownership)."""
import re

from . import flow
from .flow import chain, guarded, present, absent
from .evalx import evalx, eval_prefix, Unknown
from .schemes import call

X = "xenium::"


def _from_new(fn, nid):
    """does the expression derive from a `new` expression of this function?"""
    for x in fn.subtree(nid):
        xn = fn.nodes[x]
        if xn["k"] == "new":
            return True
        if xn["k"] == "ref" and xn.get("dk") == "local":
            for d in flow.all_defs(fn, xn["name"]):
                if any(fn.nodes[y]["k"] == "new" for y in fn.subtree(d)):
                    return True
    return False


def _is_param_call(fn, nid, idx):
    """call of the functor passed as parameter #idx"""
    n = fn.nodes[nid]
    if n["k"] != "call" or not fn.kids(nid):
        return False
    o = fn.nodes[fn.kids(nid)[0]]
    return o["k"] == "ref" and o.get("dk") == "param" and idx < len(fn.params) and o.get("name") == fn.params[idx]["name"]


def is_dtor_call(fn, nid):
    n = fn.nodes[nid]
    if n["k"] != "call":
        return False
    if "::~" in n.get("callee", ""):
        return True
    return any(fn.nodes[k]["k"] == "pseudodtor" for k in fn.kids(nid))


DTOR = {"k": "call", "pred": is_dtor_call, "desc": "explicit ~T()"}
PLACEMENT_NEW = {"k": "new", "pred": lambda fn, nid: bool(fn.nodes[nid].get("placement")), "desc": "placement new"}


def cas_on(field, desc=None):
    return {"k": "call", "field": field, "kind": "cas", "desc": desc or (field + " CAS")}


def _ret_true(fn):
    return [r for r in flow.find(fn, {"k": "return"}) if fn.kids(r) and fn.nodes[fn.kids(r)[0]].get("v") == 1]


# ---------------------------------------------------------------------------------------------------------------
def michael_scott(ctx):
    Q = X + "michael_scott_queue::"
    rid = "MSQ.protocol"
    ctx.rule(rid, "Michael-Scott queue: link the node (CAS on tail->next from null) before swinging _tail; _tail is only advanced to a linked successor; "
                  "pop validates that h is still _head before trusting next==null, helps a lagging tail, and hands out next only after winning the _head CAS")
    LINK = cas_on("node::_next", "link CAS on t->_next")
    TAIL = cas_on("michael_scott_queue::_tail", "_tail CAS")
    HEAD = cas_on("michael_scott_queue::_head", "_head CAS")
    chain(ctx, rid, Q + "push", [{"k": "new", "desc": "new node"}, LINK], label="new<link")
    for fn in flow._shapes(ctx, Q + "push"):
        tails = flow.find(fn, TAIL)
        links = flow.find(fn, LINK)
        if not tails or not links:
            ctx.bad(rid, Q + "push#link-then-swing", "push must link the node (found %d) and swing _tail (found %d)" % (len(links), len(tails)), fn.where(), fn=fn)
            continue
        for t in tails:
            desired = fn.expr(fn.kids(t)[2])
            if _from_new(fn, fn.kids(t)[2]):
                ok, path, n = flow.only_via(fn, t, lambda f, nid: flow.node_matches(f, nid, LINK), True)
                ctx.check(ok and n > 0, rid, Q + "push#swing-own|linked", "_tail is swung to the new node only after the link CAS succeeded",
                          "_tail can be advanced to the new node although it was not linked: later pushes append behind an unreachable node (elements lost)", fn.where(t), fn=fn)
            else:
                ok, path, n = flow.only_via_want(fn, t, flow.negate_want(flow.null_want(lambda f, x: flow.has_src(f, x, "load:_next"))))
                ctx.check(ok and n > 0, rid, Q + "push#help|next!=null", "helping swing only when a successor exists",
                          "_tail is helped forward without checking that a successor is linked", fn.where(t), fn=fn)
        # the link CAS expects null
        for l in links:
            exp = fn.kids(l)[1]
            d = None
            if fn.nodes[exp]["k"] == "ref":
                d = flow.unique_def(fn, fn.nodes[exp]["name"])
            ok = d is not None and (flow.const_value(fn, d) == 0 or flow.srcs(fn, d) <= {"const"})
            ctx.check(ok, rid, Q + "push#link-expects-null", "link CAS expects nullptr", "the link CAS does not expect a null next pointer (an already linked successor is overwritten)", fn.where(l), fn=fn)
        # push returns only after the node was linked
        for r in flow.find(fn, {"k": "return"}):
            ok, path, n = flow.only_via(fn, r, lambda f, nid: flow.node_matches(f, nid, LINK), True)
            ctx.check(ok and n > 0, rid, Q + "push#return|linked", "push returns only after its link CAS succeeded", "push can return without having linked its node", fn.where(r), fn=fn)
    for fn in flow._shapes(ctx, Q + "pop_node"):
        heads = flow.find(fn, HEAD)
        rets = flow.find(fn, {"k": "return"})
        if not heads:
            ctx.bad(rid, Q + "pop_node#head-cas", "no CAS on _head", fn.where(), fn=fn)
            continue
        next_null = flow.null_want(lambda f, x: flow.has_src(f, x, "load:_next"))
        lic = lambda f, nid: True if flow.node_matches(f, nid, HEAD) else next_null(f, nid)     # won the _head CAS, or the successor is null (empty)
        for r in rets:
            ok, path, n = flow.only_via_want(fn, r, lic)
            ctx.check(ok and n > 0, rid, Q + "pop_node#return|won-head-or-empty", "a node is handed out only by the thread that won the _head CAS (or the queue is empty)",
                      "pop_node returns a node without having won the CAS on _head: the element can be delivered twice", fn.where(r), fn=fn, path=flow.describe_path(fn, path))
        # re-validation of _head before the emptiness verdict and before the CAS
        reval = flow.cmp_want(lambda f, x: flow.has_src(f, x, "load:_head"), lambda f, x: flow.has_src(f, x, "load:_head"))   # h == _head.load()
        for r in rets:
            ok, path, n = flow.only_via_want(fn, r, reval)
            ctx.check(ok and n > 0, rid, Q + "pop_node#head-revalidated", "_head re-validated after reading h->_next",
                      "the successor read from h is used although h may no longer be the head (stale emptiness verdict / stale successor)", fn.where(r), fn=fn)
        lag = lambda f, nid: flow.cmp_between(f, nid, ("==",), ["load:_head"], ["load:_tail"])
        for h in heads:
            ok, path, n = flow.only_via(fn, h, lag, False)
            ctx.check(ok and n > 0, rid, Q + "pop_node#head-never-passes-tail", "_head is advanced only when it differs from _tail (otherwise the tail is helped)",
                      "_head can be advanced past _tail: _tail then refers to a reclaimed node", fn.where(h), fn=fn)
    _pop_ownership(ctx, Q + "try_pop", Q)
    _pop_ownership(ctx, Q + "pop", Q)
    # destructor: payload of every node but the dummy destroyed, every node deleted
    for fn in flow._shapes(ctx, Q + "~michael_scott_queue"):
        d = flow.find(fn, DTOR)
        dl = flow.find(fn, {"k": "delete"})
        ok = bool(d) and bool(dl)
        if ok:
            o1, p1, n1 = flow.only_via(fn, d[0], lambda f, nid: flow.cmp_between(f, nid, ("!=",), ["load:_head"], ["load:_head"]) or (
                f.nodes[nid]["k"] in ("call", "bin") and "!=" in f.expr(nid) and flow.has_src(f, nid, "load:_head")), True)
            ok = o1 and n1 > 0
        ctx.check(ok, "OWN.destructor", Q + "~michael_scott_queue#payload-but-dummy", "payload destroyed for every node except the dummy; nodes deleted",
                  "the queue destructor must destroy the payload of every node except the dummy head and delete all nodes", fn.where(), fn=fn)


def _pop_ownership(ctx, pat, Q):
    rid = "OWN.move-out-destroy"
    ctx.rule(rid, "a popped cell is moved out and then destroyed exactly once on the success path, and never touched on the empty path")
    for fn in flow._shapes(ctx, pat):
        mv = [e for e in flow.find(fn, call("std::move")) if flow.has_src(fn, e, "field:_data") or "reinterpret_cast" in flow._deep_text(fn, e)]
        dt = flow.find(fn, DTOR)
        inst = pat + "#move<destroy"
        if not mv or not dt:
            ctx.bad(rid, inst, "%s must move the payload out (found %d) and destroy the cell (found %d)" % (pat, len(mv), len(dt)), fn.where(), fn=fn)
            continue
        ok = all(flow.always_after(fn, m, dt)[0] for m in mv) and len(dt) == 1 and all(any(fn.before(m, d) for m in mv) for d in dt)
        ctx.check(ok, rid, inst, "moved-out cell destroyed exactly once after the move", "the popped payload is not destroyed exactly once after being moved out", fn.where(dt[0]), fn=fn)


# ---------------------------------------------------------------------------------------------------------------
def ramalhete(ctx):
    Q = X + "ramalhete_queue::"
    rid = "RQ.protocol"
    ctx.rule(rid, "Ramalhete queue: a ticket indexes entries[] only after the idx >= max_idx exit and the modulo; a popper that consumed a valid ticket "
                  "either returns the value or invalidates the slot by exchange in every configuration; emptiness is tested before taking a ticket; "
                  "node hand-over links next before swinging _tail / _head")
    ENTRY = {"k": "call", "field": "entry::value", "desc": "entries[idx].value access", "atomic": True}
    for f in ("push", "pop"):
        for fn in flow._shapes(ctx, Q + f):
            acc = [e for e in flow.find(fn, ENTRY)]
            full = lambda f_, nid: f_.nodes[nid]["k"] == "bin" and f_.nodes[nid]["op"] in (">=", "<", ">", "<=") and (
                flow.has_src(f_, nid, "load:push_idx") or flow.has_src(f_, nid, "load:pop_idx")) and any(
                f_.nodes[k]["k"] == "ref" and f_.nodes[k].get("name", "").endswith("max_idx") for k in f_.kids(nid))
            inst = Q + f + "#ticket-bounded"
            if not acc:
                ctx.bad(rid, inst, "no entries[] access found", fn.where(), fn=fn)
                continue
            okall = True
            for a in acc:
                ok, path, n = flow.only_via(fn, a, full, False, relicense=False)
                okall = okall and ok and n > 0
            ctx.check(okall, rid, inst, "every entries[] access is reached through the 'idx < max_idx' edge",
                      "entries[idx] is accessed on a path where the ticket was not tested against max_idx (slot of a full/drained node reused)", fn.where(acc[0]), fn=fn)
            mods = [e for e in flow.find(fn, {"k": "bin"}) if fn.nodes[e]["op"] in ("%=", "%") and (flow.has_src(fn, e, "load:push_idx") or flow.has_src(fn, e, "load:pop_idx"))]
            ok = bool(mods) and all(any(fn.before(m, a) for m in mods) for a in acc)
            ctx.check(ok, rid, Q + f + "#ticket-modulo", "ticket reduced modulo entries_per_node before indexing", "entries[] is indexed with an unreduced ticket", fn.where(acc[0]), fn=fn)
    for fn in flow._shapes(ctx, Q + "pop"):
        xchg = flow.find(fn, {"k": "call", "field": "entry::value", "op": "exchange", "desc": "slot invalidation exchange"})
        inst = Q + "pop#invalidate-or-return"
        if not xchg:
            ctx.bad(rid, inst, "pop() never invalidates an empty slot by exchange in this configuration (%s): a slow pusher's CAS succeeds on an entry the pop index "
                               "has already passed and the element is lost" % fn.insts[0][-70:], fn.where(), fn=fn)
        else:
            # after a slot was inspected, the next ticket is only taken after the slot was invalidated by the exchange (or a value was returned)
            from .harris import _reaches_without
            slot_loads = flow.find(fn, {"k": "call", "field": "entry::value", "op": "load"})
            tickets = flow.find(fn, {"k": "call", "field": "node::pop_idx", "op": "fetch_add"})
            ok = bool(slot_loads) and bool(tickets) and not any(_reaches_without(fn, l, t, set(xchg)) for l in slot_loads for t in tickets)
            ctx.check(ok, rid, inst, "slot invalidated by exchange before the pop gives up on it", "pop() can give up on a slot (take the next ticket) without invalidating it", fn.where(xchg[0]), fn=fn)
        fa = flow.find(fn, {"k": "call", "field": "node::pop_idx", "op": "fetch_add"})
        emp = [b for b, blk in fn.blocks.items() if "cond" in blk and flow.has_src(fn, blk["cond"], "load:pop_idx", "load:push_idx")]
        ok = bool(fa) and bool(emp)
        if ok:
            ok = all(emp[0] in fn.dominators().get(fn.pos()[x][0], ()) for x in fa)
        ctx.check(ok, rid, Q + "pop#empty-test<ticket", "emptiness tested before a pop ticket is taken",
                  "a pop ticket is taken without testing pop_idx >= push_idx first: tickets of an empty node are burnt and later pushes are skipped", fn.where(), fn=fn)
        # values are handed out only if non-null
        for r in [r for r in flow.find(fn, {"k": "return"}) if fn.kids(r) and "get(" in fn.expr(fn.kids(r)[0])]:
            ok, path, n = flow.only_via_want(fn, r, flow.negate_want(flow.null_want(lambda f_, x: flow.has_src(f_, x, "load:value"))))
            ctx.check(ok and n > 0, rid, Q + "pop#return|non-null", "a value is returned only if it is non-null", "pop can return a null slot content", fn.where(r), fn=fn)
    for fn in flow._shapes(ctx, Q + "push"):
        rel = flow.find(fn, call("release"))
        slot = [e for e in flow.find(fn, cas_on("entry::value"))]
        newn = flow.find(fn, {"k": "new"})
        lic = lambda f_, nid: flow.node_matches(f_, nid, cas_on("entry::value"))
        for r in rel:
            ok, path, n = flow.only_via(fn, r, lic, True)
            ok = ok or any(fn.before(nn, r) for nn in newn)
            ctx.check(ok, "OWN.release", Q + "push#release|stored", "ownership released only after the raw pointer was stored (slot CAS success / pre-filled new node)",
                      "traits::release(value) is reached on a path where the raw pointer has not been stored anywhere: the element leaks or is lost", fn.where(r), fn=fn)
        ctx.check(bool(rel), "OWN.release", Q + "push#releases", "push releases ownership of unique_ptr values", "push never calls traits::release", fn.where(), fn=fn)
        # failed node hand-over: push_idx reset before the speculative node is deleted (pre-stored value must survive)
        dels = flow.find(fn, {"k": "delete"})
        rs = flow.find(fn, {"k": "call", "field": "node::push_idx", "op": "store"})
        ok = bool(dels) and all(any(fn.before(s, d) for s in rs) for d in dels)
        ctx.check(ok, "OWN.release", Q + "push#reset-before-delete", "speculative node emptied before deletion",
                  "a speculative node is deleted with its pre-stored value still owned: the value is destroyed although it is pushed again", fn.where(), fn=fn)
        LINK = cas_on("node::next", "link CAS")
        TAIL = cas_on("ramalhete_queue::_tail")
        for t in flow.find(fn, TAIL):
            if _from_new(fn, fn.kids(t)[2]):
                ok, path, n = flow.only_via(fn, t, lambda f_, nid: flow.node_matches(f_, nid, LINK), True)
                ctx.check(ok and n > 0, rid, Q + "push#swing|linked", "_tail swung to the new node only after it was linked", "_tail swung to an unlinked node", fn.where(t), fn=fn)
    # ticket -> slot mapping is a bijection on [0, max_idx)
    import math
    rid_b = "RQ.ticket-bijection"
    ctx.rule(rid_b, "Ramalhete queue: tickets advance by step_size and are mapped to slots modulo entries_per_node; for every instantiated configuration "
                    "gcd(step_size, entries_per_node) == 1 (otherwise several tickets of one node map to the same entry) and max_idx == step_size * entries_per_node")
    recs = [r for r in ctx.facts.records if r["pat"] == X + "ramalhete_queue" and "step_size" in r.get("consts", {})]
    if not recs:
        ctx.broken.append("ramalhete_queue: class constants step_size / entries_per_node not found")
    seen_cfg = set()
    for r in recs:
        c_ = r["consts"]
        n_, st_, mx_ = c_.get("entries_per_node"), c_.get("step_size"), c_.get("max_idx")
        if n_ is None or st_ is None or (n_, st_) in seen_cfg:
            continue
        seen_cfg.add((n_, st_))
        ok = math.gcd(st_, n_) == 1 and (mx_ is None or mx_ == st_ * n_)
        ctx.check(ok, rid_b, Q[:-2] + "#entries_per_node=%d" % n_, "step %d and %d entries are coprime, max_idx = %s" % (st_, n_, mx_),
                  "ramalhete_queue with entries_per_node=%d uses step_size=%d (gcd %d): the %d tickets of a node map to only %d distinct entries - pushes overwrite "
                  "each other's slots / pops return the same element repeatedly" % (n_, st_, math.gcd(st_, n_), n_, n_ // math.gcd(st_, n_)), "xenium/ramalhete_queue.hpp")
    # C07.a destructor range
    for fn in flow._shapes(ctx, Q + "node::~node"):
        inst = Q + "node::~node#range<=max_idx"
        conds = [blk["cond"] for b, blk in fn.blocks.items() if "cond" in blk and blk.get("term") in ("ForStmt", "WhileStmt")]
        ok = False
        for c in conds:
            txt = _deep(fn, c)
            if "max_idx" in txt:
                ok = True
        ctx.check(ok, "OWN.destructor", inst, "destructor loop bounded by max_idx",
                  "node::~node iterates [pop_idx, push_idx) without bounding the range by max_idx: both counters exceed max_idx when several threads hit a "
                  "full/drained node, and entries already handed to consumers are deleted again", fn.where(), fn=fn)


def _deep(fn, nid, depth=0):
    txt = fn.expr(nid)
    if depth > 2:
        return txt
    for x in fn.subtree(nid):
        n = fn.nodes[x]
        if n["k"] == "ref" and n.get("dk") == "local":
            for d in flow.local_defs(fn, n["name"]):
                if d is not None:
                    txt += " <= " + _deep(fn, d, depth + 1)
    return txt


# ---------------------------------------------------------------------------------------------------------------
def nikolaev(ctx):
    SCQ = X + "detail::nikolaev_scq::"
    rid = "SCQ.sticky-finalized"
    ctx.rule(rid, "the finalized flag (bit 0 of nikolaev_scq::_tail) is sticky: every write to _tail is a fetch_add of an even constant, a fetch_or, "
                  "or a CAS whose desired value carries bit 0 of the expected value (finite evaluation of the desired-value expression)")
    n_writes = 0
    for fn in ctx.facts.fns:
        if not fn.file.endswith("nikolaev_scq.hpp") or fn.inlined_helper:
            continue
        for a in fn.atomics():
            if not a["field"].endswith("nikolaev_scq::_tail") or a["kind"] in ("load",):
                continue
            n_writes += 1
            e = a["nid"]
            inst = "%s#_tail.%s" % (fn.pat, a["op"])
            kids = fn.kids(e)
            if a["op"] == "fetch_add":
                v = fn.nodes[kids[1]].get("v")
                ctx.check(v is not None and v % 2 == 0, rid, inst, "fetch_add of even constant %s" % v, "_tail.fetch_add(%s) can flip the finalized bit" % fn.expr(kids[1]), fn.where(e), fn=fn)
            elif a["op"] == "fetch_or":
                ctx.ok(rid, inst, "fetch_or only sets bits", fn.where(e), fn=fn)
            elif a["kind"] == "cas":
                bad = None
                try:
                    expv = fn.nodes[kids[1]].get("name")
                    others = {fn.nodes[x]["name"] for x in fn.subtree(kids[2]) if fn.nodes[x]["k"] == "ref" and fn.nodes[x].get("dk") in ("local", "param")} - {expv}
                    for tail in (5, 7, 13):
                        for head in (4, 8, 20):
                            env_ = {expv: tail}
                            for o in others:
                                d_ = flow.unique_def(fn, o)
                                is_local = any(fn.nodes[x]["k"] == "ref" and fn.nodes[x].get("name") == o and fn.nodes[x].get("dk") == "local" for x in fn.subtree(kids[2]))
                                if d_ is not None and is_local:
                                    # the local is a function of the expected value.  It is FRESH if its definition is re-executed on every way from a failed CAS
                                    # (which refreshes the expected value) back to the CAS; otherwise it is a STALE snapshot: the tail may have been finalized in
                                    # between, so it is evaluated with the previous, unfinalized tail
                                    dpos = flow.def_event_pos(fn, o)
                                    cpos = fn.pos().get(e)
                                    fresh = dpos is not None and cpos is not None and (
                                        (dpos[0] == cpos[0] and dpos[1] < cpos[1]) or not fn.event_reaches(e, e, removed_blocks={dpos[0]}))
                                    try:
                                        env_[o] = evalx(fn, d_, {expv: tail if fresh else tail - 1, **{p_["name"]: head for p_ in fn.params if p_["name"] != expv}})
                                    except Unknown:
                                        env_[o] = head
                                else:
                                    env_[o] = head
                            got = evalx(fn, kids[2], env_)
                            if got & 1 != 1:
                                bad = (tail, head, got)
                except Unknown as ex:
                    ctx.broken.append("nikolaev_scq: desired value of the _tail CAS not evaluable (%s)" % ex)
                    continue
                ctx.check(bad is None, rid, inst, "desired value keeps bit 0 of the expected tail",
                          "the CAS on _tail replaces a finalized tail (%s) by %s (desired = %s): the finalized flag is cleared, a drained node accepts another element "
                          "which is then lost" % (bad[0] if bad else "", bad[2] if bad else "", fn.expr(kids[2])), fn.where(e), fn=fn)
            else:
                ctx.bad(rid, inst, "unexpected write %s to _tail" % a["op"], fn.where(e), fn=fn)
    if n_writes < 3:
        ctx.broken.append("nikolaev_scq: only %d writes to _tail found" % n_writes)
    # enqueue<_, Finalizable=true> fails on a finalized tail
    for fn in flow._shapes(ctx, SCQ + "enqueue"):
        fin = any(re.search(r"enqueue<(false|true), true>", i) for i in fn.insts)
        rets0 = [r for r in flow.find(fn, {"k": "return"}) if fn.kids(r) and fn.nodes[fn.kids(r)[0]].get("v") == 0]
        if fin:
            ok = bool(rets0)
            for r in rets0:
                o, p, n = flow.only_via(fn, r, lambda f_, nid: f_.nodes[nid]["k"] == "bin" and "finalized" in f_.expr(nid) and flow.has_src(f_, nid, "load:_tail"), True)
                ok = ok and o and n > 0
            ctx.check(ok, rid, SCQ + "enqueue<Finalizable>#fails-when-finalized", "finalizable enqueue returns false iff the ticket carries the finalized bit",
                      "a finalizable enqueue does not fail on a finalized queue", fn.where(), fn=fn)
    # the dequeue threshold is re-armed only by an enqueue that has published its entry
    for fn in flow._shapes(ctx, SCQ + "enqueue"):
        ths = flow.find(fn, {"k": "call", "field": "nikolaev_scq::_threshold", "op": "store"})
        ecas = flow.find(fn, cas_on("nikolaev_scq::_data[]", "entry CAS")) or [e for e in flow.find(fn, {"k": "call"}) if fn.atomic(e) and fn.atomic(e)["kind"] == "cas" and "_data" in fn.atomic(e)["field"]]
        nonempty_inst = all(re.search(r"enqueue<true", i) for i in fn.insts)
        if not ths:
            if not nonempty_inst:
                ctx.bad(rid, SCQ + "enqueue#threshold-rearm", "enqueue<Nonempty=false> never re-arms the dequeue threshold: consumers keep reporting empty", fn.where(), fn=fn)
            continue
        for t_ in ths:
            ok, path, n = flow.only_via(fn, t_, lambda f_, nid: nid in ecas, True)
            ctx.check(ok and n > 0, rid, SCQ + "enqueue#threshold-rearm|published", "the threshold is re-armed only after the entry CAS succeeded",
                      "the dequeue threshold is re-armed before the entry is published: consumers that poll meanwhile use the threshold up again (3n-1 failing dequeues), "
                      "the enqueue then publishes without re-arming it, and every later dequeue reports empty although the element is stored", fn.where(t_), fn=fn)
    # the threshold bound of SCQ assumes a bounded number of concurrent dequeuers
    rid_tb = "SCQ.threshold-thread-bound"
    ctx.rule(rid_tb, "SCQ re-arms its dequeue threshold to T(c) after an enqueue; a dequeuer gives up (reports empty) once the threshold is negative, and every dequeuer that "
                     "visited a slot in vain decrements it once - also dequeuers that were already in flight when the threshold was re-armed.  With a ring of R(c) slots "
                     "the element is found after at most R(c) vain visits of ONE dequeuer, so T(c) tolerates T(c) - R(c) + 1 concurrent dequeuers (the k <= n assumption of "
                     "the SCQ paper).  That admissible number, computed from the constants in the source, must reach the number of threads the property quantifies over (4) "
                     "for every capacity the constructor accepts, down to the minimum capacity 1")
    for fn in flow._shapes(ctx, SCQ + "enqueue"):
        ths = flow.find(fn, {"k": "call", "field": "nikolaev_scq::_threshold", "op": "store"})
        if not ths or len(fn.params) < 2:
            continue
        cap_name = fn.params[1]["name"]
        worst = None
        try:
            for c_ in (1, 2, 4, 8):
                env_, _stop = eval_prefix(fn, {cap_name: c_, fn.params[0]["name"]: 0})
                env_.setdefault(cap_name, c_)
                t_val = evalx(fn, fn.kids(ths[0])[1], env_)
                ring = env_.get("n", 2 * c_)
                kmax = t_val - ring + 1
                if kmax < 4 and worst is None:
                    worst = (c_, t_val, ring, kmax)
        except Unknown as ex:
            ctx.broken.append("nikolaev_scq::enqueue: threshold value not evaluable (%s)" % ex)
            continue
        ctx.check(worst is None, rid_tb, SCQ[:-2] + "#capacity<threads", "the re-armed threshold tolerates 4 concurrent dequeuers for every capacity",
                  "with capacity %s the threshold is re-armed to %s for a ring of %s slots: it tolerates only %s concurrent dequeuer(s).  With more polling consumers than that the "
                  "in-flight dequeuers' late decrements drive the threshold below zero AFTER an enqueue re-armed it: the element stays stored, every later dequeue reports "
                  "empty (nikolaev_bounded_queue accepts any capacity >= 1 and documents a thread bound for lock-freedom only)" % (worst or (0, 0, 0, 0)), fn.where(ths[0]), fn=fn)
        break
    # catchup never moves _tail backwards
    rid_c = "SCQ.catchup-monotone"
    ctx.rule(rid_c, "nikolaev_scq::catchup: the CAS that pulls _tail up to _head is re-attempted only while the refreshed tail is still behind the refreshed head "
                    "(every way from a failed CAS back to the CAS passes the 'tail behind head' edge of a test over both refreshed values, decided by finite "
                    "evaluation of the test): a failed CAS means somebody moved _tail - if pushers moved it past head, retrying would move it BACKWARDS behind "
                    "entries that are already enqueued, and dequeue reports empty from _tail although a completed push sits one position further on")
    for fn in flow._shapes(ctx, SCQ + "catchup"):
        tcas = [a_["nid"] for a_ in fn.atomics() if a_["kind"] == "cas" and a_["field"].endswith("nikolaev_scq::_tail")]
        if not tcas:
            ctx.broken.append("nikolaev_scq::catchup: no CAS on _tail")
            continue
        pn = [p_["name"] for p_ in fn.params]

        def behind(f_, nid, pn=pn):
            n_ = f_.nodes[nid]
            if n_["k"] != "bin" or n_.get("op") not in ("<", ">=", ">", "<=", "==", "!="):
                return None
            names = {f_.nodes[x].get("name") for x in f_.subtree(nid) if f_.nodes[x]["k"] == "ref"}
            if not (set(pn[:2]) <= names):
                return None
            try:
                dfn = {"call:diff": (lambda a, b: a - b)}
                v_behind = evalx(f_, nid, {pn[0]: 4, pn[1]: 12, **dfn})
                v_ahead = evalx(f_, nid, {pn[0]: 12, pn[1]: 4, **dfn})
                v_eq = evalx(f_, nid, {pn[0]: 8, pn[1]: 8, **dfn})
            except Unknown:
                return None
            if bool(v_behind) == bool(v_ahead) or bool(v_eq) != bool(v_ahead):
                return None
            return bool(v_behind)
        for c_ in tcas:
            ok, path, n = flow.between_only_via(fn, c_, c_, behind)
            ctx.check(ok and n > 0, rid_c, SCQ + "catchup#retry|tail-behind-head", "the CAS is retried only while tail is behind head",
                      "the _tail CAS of catchup() is re-attempted without a test that the refreshed tail is still behind the refreshed head: after pushers advanced _tail past "
                      "head, the retry sets _tail back to head - behind entries that are already enqueued; a later try_pop that draws the slot of a still pending push "
                      "reports empty although a completed try_push sits one position further on", fn.where(c_), fn=fn, path=flow.describe_path(fn, path))
    # the bounded queue hands the SAME capacity to calc_remap_shift and to the SCQ operations
    rid_r = "NQ.remap-shift-capacity"
    ctx.rule(rid_r, "nikolaev_bounded_queue constructor: the remap shift is computed from the rounded capacity the SCQ operations are called with (the member "
                    "_capacity / next_power_of_two(capacity)), not from the requested capacity: for a request that is not a power of two the shift is one too "
                    "small, remap_index is no bijection any more and ring positions share slots")
    for fn in flow._shapes(ctx, X + "nikolaev_bounded_queue::nikolaev_bounded_queue"):
        calls = [e for e, n_ in enumerate(fn.nodes) if n_["k"] == "call" and n_.get("callee", "").endswith("calc_remap_shift")]
        if not calls:
            ctx.broken.append("nikolaev_bounded_queue constructor: calc_remap_shift call not found")
            continue
        for c_ in calls:
            s_ = flow.srcs(fn, fn.kids(c_)[-1])
            ok = "field:_capacity" in s_ or "call:next_power_of_two" in s_
            ctx.check(ok, rid_r, X + "nikolaev_bounded_queue#remap-shift|rounded-capacity", "calc_remap_shift sees the rounded capacity",
                      "calc_remap_shift is called with %s (sources: %s) instead of the rounded capacity the queues are operated with" % (
                          fn.expr(fn.kids(c_)[-1]), ", ".join(sorted(s_))), fn.where(c_), fn=fn)
    rid3 = "SCQ.settle-slot"
    ctx.rule(rid3, "SCQ dequeue: after taking a head ticket the dequeuer leaves its slot only after settling it: consuming the value, stamping the slot "
                   "with its cycle by CAS, finding it already stamped (entry == entry_new), or finding it in a cycle that is not older than its own; only then it "
                   "may report empty or take another ticket")
    for fn in flow._shapes(ctx, SCQ + "dequeue"):
        F = flow.find(fn, {"k": "call", "field": "nikolaev_scq::_head", "op": "fetch_add"})
        if not F:
            ctx.bad(rid3, SCQ + "dequeue#ticket", "no head ticket (fetch_add on _head)", fn.where(), fn=fn)
            continue

        def lic(f_, nid):
            a = f_.atomic(nid)
            if a and a["kind"] == "cas" and a["field"].endswith("_data[]"):
                return True
            nn = f_.nodes[nid]
            c_ = f_.kids(nid)
            if nn["k"] == "bin" and nn["op"] == "==" and len(c_) == 2:
                # entry == entry_new: the slot value compared with its own "unsafe" rewrite (derived from the same slot load, masked with ~n)
                l_, r_ = flow._deep_text(f_, c_[0]), flow._deep_text(f_, c_[1])
                if flow.has_src(f_, nid, "load:_data") and ("~" in l_ or "~" in r_):
                    return True
            if nn["k"] == "bin" and nn["op"] == "<" and flow.has_src(f_, nid, "load:_data", "load:_head") and "diff" in f_.expr(nid):
                return False
            return None
        targets = [F[0]] + [r for r in flow.find(fn, {"k": "return"}) if fn.kids(r) and fn.nodes[fn.kids(r)[0]].get("v") == 0 and fn.event_reaches(F[0], r)]
        for t in targets:
            ok, path, n = flow.between_only_via(fn, F[0], t, lic)
            what = "takes another ticket" if t == F[0] else "reports empty (line %d)" % fn.nodes[t].get("l", 0)
            ctx.check(ok and n >= 3, rid3, SCQ + "dequeue#settled-before-" + ("next-ticket" if t == F[0] else "empty@%d" % targets.index(t)),
                      "slot settled before the dequeuer " + what,
                      "the dequeuer %s on a path where its slot was neither consumed, stamped with its cycle, nor found settled: an enqueuer that obtains the same ticket "
                      "deposits its index behind head and the element (or free slot) is lost" % what, fn.where(t), fn=fn, path=flow.describe_path(fn, path))
    # node hand-over: a node is abandoned only after a re-scan with the threshold re-armed
    rid_ho = "NQ.handover-rescan"
    ctx.rule(rid_ho, "nikolaev_queue::do_pop swings _head past a node only on the failure edge of a dequeue on that node's allocated queue that was performed "
                     "AFTER the node's dequeue threshold was re-armed (set_threshold), which in turn happens only after a successor was observed (_next != null): "
                     "SCQ's dequeue gives up without scanning while the threshold is negative, and an enqueuer re-arms the threshold only after its entry CAS - "
                     "a first failed dequeue therefore does not show that the finalized node is drained")
    for fn in flow._shapes(ctx, X + "nikolaev_queue::do_pop"):
        hcas = flow.find(fn, cas_on("nikolaev_queue::_head", "_head CAS"))
        if not hcas:
            ctx.broken.append("nikolaev_queue::do_pop: no CAS on _head")
            continue
        sts = [e for e in flow.find(fn, {"k": "call"}) if fn.nodes[e].get("callee", "").endswith("nikolaev_scq::set_threshold")]
        dqs = [e for e in flow.find(fn, {"k": "call"}) if fn.nodes[e].get("callee", "").endswith("nikolaev_scq::dequeue") and "_allocated_queue" in fn.expr(e)]
        rearmed = [d for d in dqs if any(fn.before(s_, d) for s_ in sts)]
        for h_ in hcas:
            ok, path, n = flow.only_via(fn, h_, lambda f_, nid: nid in rearmed, False)
            ctx.check(ok and n > 0, rid_ho, X + "nikolaev_queue::do_pop#head-swing|rescan-failed", "head is swung only after the re-armed re-scan failed",
                      "the CAS that swings _head past the node is reachable without a failed dequeue that was performed after set_threshold(): a popper that arrives "
                      "while the threshold is still negative (fresh node, or pops on an empty queue) but entries were already published skips the finalized node and "
                      "retires it - pushes into it returned, their values are never popped", fn.where(h_), fn=fn, path=flow.describe_path(fn, path))
        next_null = flow.null_want(lambda f_, x: flow.has_src(f_, x, "load:_next"))
        for s_ in sts:
            ok, path, n = flow.only_via_want(fn, s_, flow.negate_want(next_null))
            ctx.check(ok and n > 0, rid_ho, X + "nikolaev_queue::do_pop#rearm|has-successor", "the threshold is re-armed only when a successor exists",
                      "set_threshold() is reachable without the node having a successor: re-arming the threshold of the live tail node makes every pop of an "
                      "empty queue scan the whole ring", fn.where(s_), fn=fn, path=flow.describe_path(fn, path))
    Q = X + "nikolaev_queue::"
    rid2 = "NQ.protocol"
    ctx.rule(rid2, "nikolaev_queue node protocol: construct the element before publishing its index with a finalizable enqueue; roll back (move back, "
                   "destroy, free the index) when the node was finalized; destroy a popped element before freeing its index; full nodes are finalized")
    for fn in flow._shapes(ctx, Q + "node::try_push"):
        pn = flow.find(fn, PLACEMENT_NEW)
        enq = [e for e in flow.find(fn, call("nikolaev_scq::enqueue")) if "_allocated_queue" in fn.expr(e)]
        inst = Q + "node::try_push"
        if not pn or not enq:
            ctx.bad(rid2, inst + "#construct<publish", "try_push must construct (found %d) and publish into the allocated queue (found %d)" % (len(pn), len(enq)), fn.where(), fn=fn)
            continue
        ctx.check(all(any(fn.before(p, e) for p in pn) for e in enq), rid2, inst + "#construct<publish", "element constructed before its index is published",
                  "the index is published before the element is constructed (a consumer reads an unconstructed element)", fn.where(enq[0]), fn=fn)
        for e in enq:
            ta = fn.nodes[e].get("targs", [])
            ctx.check(len(ta) >= 2 and ta[1] == 1, rid2, inst + "#publish-is-finalizable", "allocated-queue enqueue is instantiated with Finalizable=true",
                      "the index is published with a non-finalizable enqueue (template arguments %s): a pusher that was delayed does not notice that the node was finalized, "
                      "drained and unlinked, and its element is lost" % ta, fn.where(e), fn=fn)
        fz = flow.find(fn, call("finalize"))
        deq = [e for e in flow.find(fn, call("nikolaev_scq::dequeue")) if "_free_queue" in fn.expr(e)]
        for z in fz:
            ok, path, n = flow.only_via(fn, z, lambda f_, nid: nid in deq, False)
            ctx.check(ok and n > 0, rid2, inst + "#finalize|full", "node finalized when no free index is left", "finalize() is not tied to the node being full", fn.where(z), fn=fn)
        ctx.check(bool(fz), rid2, inst + "#finalizes", "full node is finalized", "a full node is never finalized (it cannot be handed over safely)", fn.where(), fn=fn)
        # rollback
        dt = flow.find(fn, DTOR)
        freeq = [e for e in flow.find(fn, call("nikolaev_scq::enqueue")) if "_free_queue" in fn.expr(e)]
        mvback = [e for e in flow.find(fn, {"k": "call", "callee_re": r"operator=$|"}) if False]
        ok = bool(dt) and bool(freeq) and all(any(fn.before(d, f_) for d in dt) for f_ in freeq)
        ctx.check(ok, rid2, inst + "#rollback", "rollback: element destroyed before its index is freed",
                  "when publishing fails the constructed element must be destroyed before its index returns to the free queue", fn.where(), fn=fn)
        for r in _ret_true(fn):
            ok, path, n = flow.only_via(fn, r, lambda f_, nid: nid in enq, True)
            ctx.check(ok and n > 0, rid2, inst + "#true|published", "'return true' only if the index was published", "try_push reports success without publishing", fn.where(r), fn=fn)
    for C in (X + "nikolaev_queue::", X + "nikolaev_bounded_queue::"):
        for fn in flow._shapes(ctx, C + "do_pop"):
            dt = flow.find(fn, DTOR)
            freeq = [e for e in flow.find(fn, call("nikolaev_scq::enqueue")) if "_free_queue" in fn.expr(e)]
            sf = [e for e in flow.find(fn, {"k": "call"}) if _is_param_call(fn, e, 0)]
            ok = bool(dt) and bool(freeq) and bool(sf) and all(any(fn.before(s, d) for s in sf) for d in dt) and all(any(fn.before(d, f_) for d in dt) for f_ in freeq)
            ctx.check(ok, "OWN.move-out-destroy", C + "do_pop#consume<destroy<free", "element consumed, destroyed, then its index freed",
                      "a popped element must be moved out, destroyed and only then its index returned to the free queue (otherwise a producer constructs over a live element)",
                      fn.where(), fn=fn)
    # an element may only be destroyed after its index left the allocated queue (otherwise the node destructor, which drains that queue, destroys it again)
    for pat in (Q + "node::steal_init_value", Q + "node::~node", Q + "node::try_push", Q + "do_pop", X + "nikolaev_bounded_queue::do_pop", X + "nikolaev_bounded_queue::~nikolaev_bounded_queue"):
        for fn in ctx.facts.shapes(pat):
            dts = [d for d in flow.find(fn, DTOR)]
            if not dts:
                continue
            deq = [e for e in flow.find(fn, call("nikolaev_scq::dequeue")) if "_allocated_queue" in fn.expr(e)]
            enq = [e for e in flow.find(fn, call("nikolaev_scq::enqueue")) if "_allocated_queue" in fn.expr(e)]
            for d in dts:
                ok = any(fn.before(q_, d) for q_ in deq)
                if not ok and enq:
                    o, pth, n_ = flow.only_via(fn, d, lambda f_, nid: nid in enq, False)
                    ok = o and n_ > 0
                ctx.check(ok, "OWN.move-out-destroy", pat + "#destroy|index-left-allocated-queue", "element destroyed only after its index was dequeued from (or never entered) the allocated queue",
                          "an element is destroyed while its index is still in the allocated queue: the node destructor drains that queue and destroys the element a second time",
                          fn.where(d), fn=fn)
    # the cell storage has as many cells as the index queues hand out indices
    NB = X + "nikolaev_bounded_queue::"
    for fn in flow._shapes(ctx, NB + "nikolaev_bounded_queue"):
        news = [e for e, n_ in enumerate(fn.nodes) if n_["k"] == "new" and n_.get("array") and isinstance(n_.get("asize"), int)]
        scqs = [e for e in flow.find(fn, {"k": "construct", "callee": "nikolaev_scq::nikolaev_scq"}) if len(fn.kids(e)) >= 2]
        inst = NB + "nikolaev_bounded_queue#storage-size=index-range"
        if not news or not scqs:
            ctx.broken.append("nikolaev_bounded_queue constructor: storage allocation (%d) / index queue construction (%d) not found" % (len(news), len(scqs)))
            continue
        sz = {frozenset(flow.srcs(fn, fn.nodes[e]["asize"])) for e in news}
        cap = {frozenset(flow.srcs(fn, fn.kids(e)[0])) for e in scqs}
        ok = len(cap) == 1 and sz == cap
        ctx.check(ok, rid2, inst, "storage cells and index queues are sized by the same expression",
                  "the cell storage is allocated with %s elements but the index queues hand out indices of a range sized by %s: with a capacity that is not a power of two "
                  "elements are constructed beyond the end of the storage" % (" / ".join(fn.expr(fn.nodes[e]["asize"]) for e in news), " / ".join(sorted({fn.expr(fn.kids(e)[0]) for e in scqs}))),
                  fn.where(news[0]), fn=fn)
    for fn in flow._shapes(ctx, X + "nikolaev_bounded_queue::try_push"):
        pn = flow.find(fn, PLACEMENT_NEW)
        enq = [e for e in flow.find(fn, call("nikolaev_scq::enqueue")) if "_allocated_queue" in fn.expr(e)]
        ok = bool(pn) and bool(enq) and all(any(fn.before(p, e) for p in pn) for e in enq)
        ctx.check(ok, rid2, X + "nikolaev_bounded_queue::try_push#construct<publish", "element constructed before its index is published",
                  "the index is published before the element is constructed", fn.where(), fn=fn)
        deq = [e for e in flow.find(fn, call("nikolaev_scq::dequeue")) if "_free_queue" in fn.expr(e)]
        for p in pn:
            o, pa, n = flow.only_via(fn, p, lambda f_, nid: nid in deq, True)
            ctx.check(o and n > 0, rid2, X + "nikolaev_bounded_queue::try_push#construct|got-index", "construction only with a free index",
                      "an element is constructed without having obtained a free index", fn.where(p), fn=fn)
    # nikolaev_queue::push node hand-over
    for fn in flow._shapes(ctx, Q + "push"):
        LINK = cas_on("node::_next", "link CAS")
        TAIL = cas_on("nikolaev_queue::_tail")
        for t in flow.find(fn, TAIL):
            des = fn.expr(fn.kids(t)[2])
            newn = flow.find(fn, {"k": "new"})
            if newn and any(fn.before(nn, t) for nn in newn):
                ok, path, n = flow.only_via(fn, t, lambda f_, nid: flow.node_matches(f_, nid, LINK), True)
                ctx.check(ok and n > 0, rid2, Q + "push#swing|linked", "_tail swung to the new node only after it was linked", "_tail swung to an unlinked node", fn.where(t), fn=fn)
        st = flow.find(fn, call("steal_init_value"))
        dels = flow.find(fn, {"k": "delete"})
        ok = bool(st) and bool(dels) and all(any(fn.before(s, d) for s in st) for d in dels)
        ctx.check(ok, "OWN.release", Q + "push#steal<delete", "the value is taken back from a speculative node before it is deleted",
                  "a speculative node that lost the link race is deleted with the pushed value still inside", fn.where(), fn=fn)
    for fn in flow._shapes(ctx, Q + "node::~node"):
        ok = bool(flow.find(fn, DTOR)) and bool(flow.find(fn, call("nikolaev_scq::dequeue")))
        ctx.check(ok, "OWN.destructor", Q + "node::~node#drain", "destructor drains the allocated queue and destroys each element", "node destructor must destroy the remaining elements", fn.where(), fn=fn)


# ---------------------------------------------------------------------------------------------------------------
def vyukov_bounded(ctx):
    Q = X + "vyukov_bounded_queue::"
    rid = "VBQ.cell-protocol"
    ctx.rule(rid, "Vyukov bounded queue cell protocol: the position CAS is won before the cell is touched; the payload is constructed (push) / moved out "
                  "and destroyed (pop) before the release store of the cell's sequence; weak variants bail out when the cell is not ready, strong variants "
                  "re-read the opposite position before answering full/empty")
    for f, posf in (("do_try_push", "enqueue_pos"), ("do_try_pop", "dequeue_pos")):
        for fn in flow._shapes(ctx, Q + f):
            cas = flow.find(fn, cas_on("vyukov_bounded_queue::" + posf))
            seqst = flow.find(fn, {"k": "call", "field": "cell::sequence", "op": "store", "desc": "sequence.store"})
            seqld = flow.find(fn, {"k": "call", "field": "cell::sequence", "op": "load", "desc": "sequence.load"})
            if f == "do_try_push":
                pl = flow.find(fn, call("assign_value")) + flow.find(fn, PLACEMENT_NEW)
            else:
                pl = [e for e in flow.find(fn, {"k": "call"}) if _is_param_call(fn, e, 0)] + flow.find(fn, DTOR)
            inst = Q + f
            weak = any(re.search(r"%s<true" % f, i) for i in fn.insts)
            wtag = "[weak]" if weak else "[strong]"
            if not cas or not seqst or not pl or not seqld:
                ctx.bad(rid, inst + "#shape", "%s: position CAS %d, sequence load %d, payload op %d, sequence store %d - cell protocol incomplete" % (
                    f, len(cas), len(seqld), len(pl), len(seqst)), fn.where(), fn=fn)
                continue
            for p in pl:
                ok, path, n = flow.only_via(fn, p, lambda f_, nid: nid in cas, True)
                ctx.check(ok and n > 0, rid, inst + "#payload|won-position", "cell touched only after winning the position CAS",
                          "the cell payload is accessed without having won the CAS on %s (two threads use one cell)" % posf, fn.where(p), fn=fn)
            if f == "do_try_push":
                fwd = [e for e in flow.find(fn, {"k": "call"}) if fn.nodes[e].get("callee") in ("std::forward", "std::move") and fn.kids(e)
                       and fn.nodes[fn.kids(e)[0]]["k"] == "ref" and fn.nodes[fn.kids(e)[0]].get("dk") == "param"]
                okf = True
                for e in fwd:
                    o_, p_, n_ = flow.only_via(fn, e, lambda f_, nid: nid in cas, True)
                    okf = okf and o_ and n_ > 0
                ctx.check(okf, "OWN.release", inst + "#args-consumed|won-position" + wtag, "the caller's arguments are forwarded only after the position CAS was won",
                          "the pushed value is consumed (forwarded / moved from) before the push is known to succeed: a rejected try_push leaves the caller with a moved-from value",
                          fn.where(fwd[0]) if fwd else fn.where(), fn=fn)
            ok = all(any(fn.before(p, s_) for p in pl) for s_ in seqst) and all(any(fn.before(p, s_) for s_ in seqst) for p in pl)
            ctx.check(ok, rid, inst + "#payload<sequence-store", "payload operation precedes the release store of the sequence",
                      "the cell's sequence is published before the payload was %s" % ("constructed" if f == "do_try_push" else "moved out and destroyed"), fn.where(seqst[0]), fn=fn)
            if f == "do_try_pop":
                dts = flow.find(fn, DTOR)
                sfs = [e for e in flow.find(fn, {"k": "call"}) if _is_param_call(fn, e, 0)]
                ok = bool(dts) and bool(sfs) and all(any(fn.before(s_, d) for s_ in sfs) for d in dts) and len(dts) == 1
                ctx.check(ok, "OWN.move-out-destroy", inst + "#move<destroy", "value moved out, then the cell destroyed exactly once", "the popped cell must be moved out and then destroyed once", fn.where(), fn=fn)
            ok = all(any(fn.before(l, c) for l in seqld) for c in cas)
            ctx.check(ok, rid, inst + "#sequence-load<cas", "the cell's sequence is read before trying to claim the position", "position claimed without reading the cell sequence", fn.where(cas[0]), fn=fn)
            # the position CAS is attempted only when the cell's sequence says it is this operation's turn
            turn = lambda f_, nid: f_.nodes[nid]["k"] == "bin" and f_.nodes[nid]["op"] == "==" and flow.has_src(f_, nid, "load:sequence")
            for c in cas:
                ok, path, n = flow.only_via(fn, c, turn, True)
                ctx.check(ok and n > 0, rid, inst + "#cas|turn", "position CAS only when the cell's sequence equals the expected turn",
                          "the position is claimed although the cell is not ready for this operation", fn.where(c), fn=fn)
            for r in _ret_true(fn):
                ok, path, n = flow.only_via(fn, r, lambda f_, nid: nid in cas, True)
                ctx.check(ok and n > 0, rid, inst + "#true|won-position", "'return true' only after winning the position CAS", "success reported without winning the position", fn.where(r), fn=fn)
            # arithmetic of the protocol (finite evaluation): cell index, claimed position, published sequence
            try:
                posvars = {fn.nodes[x]["name"] for x in fn.subtree(fn.kids(cas[0])[2]) + fn.subtree(fn.kids(seqst[0])[1])
                           if fn.nodes[x]["k"] == "ref" and fn.nodes[x].get("dk") == "local" and flow.has_src(fn, x, "load:" + posf)}
                env = {"index_mask": 3, "this.index_mask": 3}
                for pv in posvars:
                    d = flow.unique_def(fn, pv)
                    # a helper like new_pos = pos + 1 is evaluated through its definition; the position itself gets the sample value
                    if d is None or fn.atomic(d) or fn.nodes[d]["k"] != "bin":
                        env[pv] = 5
                turn_nodes = [blk["cond"] for b, blk in fn.blocks.items() if "cond" in blk and turn(fn, blk["cond"]) and b in fn.live_blocks()]
                st_arg = fn.kids(seqst[0])[1]
                want_store = 6 if f == "do_try_push" else 5 + 3 + 1
                got_store = evalx(fn, st_arg, env)
                des = evalx(fn, fn.kids(cas[0])[2], env)
                ctx.check(got_store == want_store and des == 6, rid, inst + "#sequence-arithmetic",
                          "claimed position pos+1, published sequence %s" % ("pos+1" if f == "do_try_push" else "pos+capacity"),
                          "sequence arithmetic is off: for pos=5, capacity=4 the CAS installs %s (expected 6) and the cell's sequence is set to %s (expected %s): the cell is "
                          "handed to the wrong turn" % (des, got_store, want_store), fn.where(seqst[0]), fn=fn)
            except Unknown as ex:
                ctx.note("vyukov_bounded_queue %s arithmetic not evaluable: %s" % (f, ex))
            # weak: bail out when the cell is behind; strong: answer full/empty only after re-reading both positions
            fails = [r for r in flow.find(fn, {"k": "return"}) if r not in _ret_true(fn) and not any(fn.before(c, r) for c in cas)]
            if weak:
                behind = lambda f_, nid: f_.nodes[nid]["k"] == "bin" and f_.nodes[nid]["op"] == "<" and flow.has_src(f_, nid, "load:sequence")
                for r in fails:
                    ok, path, n = flow.only_via(fn, r, behind, True)
                    ctx.check(ok and n > 0, rid, inst + "#weak-fail|cell-behind" + wtag, "weak operation fails only when the cell's sequence is behind",
                              "the weak operation can fail although the cell is ahead (spurious failure is allowed only when an operation on that cell is pending)", fn.where(r), fn=fn)
            else:
                other = "dequeue_pos" if f == "do_try_push" else "enqueue_pos"
                for r in fails:
                    okp, pa, n = flow.only_via(fn, r, lambda f_, nid: f_.nodes[nid]["k"] == "bin" and f_.nodes[nid]["op"] == "==" and flow.has_src(f_, nid, "load:" + other), True)
                    okq, pa, n2 = flow.only_via(fn, r, lambda f_, nid: flow.cmp_between(f_, nid, ("==",), ["load:" + posf], ["load:" + posf]), True)
                    ctx.check(okp and n > 0 and okq and n2 > 0, rid, inst + "#strong-fail|positions-reread" + wtag,
                              "strong operation reports full/empty only after re-reading its own and the opposite position",
                              "the strong operation reports %s without re-reading %s (it may fail although the queue is not %s)" % (
                                  "full" if f == "do_try_push" else "empty", other, "full" if f == "do_try_push" else "empty"), fn.where(r), fn=fn)
    # progress of the weak variants (C16): a cell that is behind its turn makes the weak operation RETURN, whatever left it behind
    rid_w = "VBQ.weak-returns-when-behind"
    ctx.rule(rid_w, "vyukov_bounded_queue weak operations (documented lock-free), finite execution of one loop round for every (position, cell sequence) of a "
                    "4-cell ring: sequence == turn -> the position CAS is attempted; sequence < turn (the cell is still owned by an operation of the previous "
                    "lap - possibly a thread that is stopped before its final sequence store) -> the operation returns its failure value; only sequence > turn "
                    "(the position read is outdated: somebody else made progress) may go round again")
    from .evalx import run_until
    for f, posf in (("do_try_push", "enqueue_pos"), ("do_try_pop", "dequeue_pos")):
        for fn in flow._shapes(ctx, X + "vyukov_bounded_queue::" + f):
            if not any(re.search(r"%s<true" % f, i) for i in fn.insts):
                continue
            bad = None
            n_pts = 0
            try:
                for pos in (4, 5, 6, 7):
                    for seq in range(pos - 4, pos + 6):
                        turn_ = pos if f == "do_try_push" else pos + 1
                        cnt = {"loads": 0}
                        out = {}

                        def stop(f_, nid, cnt=cnt, out=out):
                            a_ = f_.atomic(nid)
                            if a_ and a_["field"].endswith("::" + posf):
                                if a_["kind"] == "cas":
                                    out["r"] = "claim"
                                    return True
                                if a_["kind"] == "load":
                                    cnt["loads"] += 1
                                    if cnt["loads"] >= 2:
                                        out["r"] = "retry"
                                        return True
                            if f_.nodes[nid]["k"] == "return":
                                out["r"] = "return"
                                return True
                            return False
                        env0 = {"load:" + posf: pos, "load:sequence": seq, "index_mask": 3, "this.index_mask": 3}
                        _env, ev_ = run_until(fn, env0, stop, max_steps=400)
                        got = out.get("r", "return" if ev_ is None else "?")
                        n_pts += 1
                        want = "claim" if seq == turn_ else ("return" if seq < turn_ else "retry")
                        if got != want and not (seq > turn_ and got == "return") and bad is None:
                            bad = (pos, seq, turn_, got, want)
            except Unknown as ex:
                ctx.broken.append("VBQ.weak-returns-when-behind: %s<Weak> not executable (%s)" % (f, ex))
                continue
            ctx.check(bad is None, rid_w, X + "vyukov_bounded_queue::" + f + "#weak-round", "all %d (position, sequence) points decided correctly" % n_pts,
                      "weak %s with position %s and cell sequence %s (turn %s) %s instead of %s: %s" % (
                          f, bad[0] if bad else "", bad[1] if bad else "", bad[2] if bad else "",
                          {"retry": "goes round again", "return": "returns", "claim": "attempts the position CAS"}.get(bad[3] if bad else "", "?"),
                          {"retry": "retrying", "return": "returning its failure value", "claim": "claiming the position"}.get(bad[4] if bad else "", "?"),
                          "a thread of the previous lap that is stopped before its final sequence store leaves the cell behind for ever, and this "
                          "lock-free operation reloads an unchanged position without end" if bad and bad[3] == "retry" else "the cell protocol is broken"),
                      fn.where(), fn=fn)
    # the public variants dispatch to the algorithm their name promises, whatever the default policy is
    ctx.rule("VBQ.variant-dispatch", "vyukov_bounded_queue: *_strong members run do_try_push/do_try_pop<Weak=false>, *_weak members <Weak=true>, the plain members the configured "
                                     "default - in every instantiated configuration (incl. default_to_weak<true>)")
    n_disp = 0
    strong_under_weak_default = 0
    for fn in ctx.facts.fns:
        if not fn.pat.startswith(Q) or fn.inlined_helper:
            continue
        leaf = fn.pat.split("::")[-1]
        if leaf not in ("try_push", "try_push_strong", "try_push_weak", "try_pop", "try_pop_strong", "try_pop_weak", "pop", "pop_strong", "pop_weak", "emplace"):
            continue
        weak_default = any("default_to_weak<true>" in i for i in fn.insts)
        want = 0 if leaf.endswith("_strong") else 1 if leaf.endswith("_weak") else (1 if weak_default else 0)
        for b, i, e, n_ in fn.events():
            if n_["k"] == "call" and n_.get("callee", "").split("::")[-1] in ("do_try_push", "do_try_pop") and n_.get("targs"):
                n_disp += 1
                if leaf.endswith("_strong") and weak_default:
                    strong_under_weak_default += 1
                got = n_["targs"][0]
                ctx.check(got == want, "VBQ.variant-dispatch", fn.pat + "#dispatch[%s]" % ("weak-default" if weak_default else "strong-default"),
                          "%s runs the %s algorithm" % (leaf, "weak" if want else "strong"),
                          "%s forwards to %s<Weak=%s> in a queue configured with default_to_weak<%s>: the operation documented as %s runs the %s algorithm (a strong operation "
                          "then fails although the queue is not full/empty, a weak one blocks)" % (leaf, n_["callee"].split("::")[-1], bool(got), "true" if weak_default else "false",
                                                                                                  "strong" if want == 0 else "weak", "weak" if got else "strong"), fn.where(e), fn=fn)
    if n_disp < 6 or strong_under_weak_default < 2:
        ctx.broken.append("vyukov_bounded_queue dispatch: %d forwarding calls, %d strong operations under default_to_weak<true> instantiated" % (n_disp, strong_under_weak_default))
    # the destructor destroys exactly the cells of the positions [dequeue_pos, enqueue_pos) - finite execution for a ring of 4 cells, every
    # dequeue position 0..9 and every fill level 0..4 (in particular the completely full ring, where both ends denote the same cell)
    from .evalx import run_until
    for fn in flow._shapes(ctx, Q + "~vyukov_bounded_queue"):
        bad = None
        n_runs = 0
        try:
            for d_ in range(0, 10):
                for fill in range(0, 5):
                    e_ = d_ + fill
                    visited = []

                    def on_event(f, ev_, env, visited=visited):
                        nn = f.nodes[ev_]
                        is_idx = nn["k"] == "index" or (nn["k"] == "call" and nn.get("callee", "").endswith("operator[]"))
                        if is_idx and f.field_of(f.kids(ev_)[0]).endswith("cells"):
                            visited.append(evalx(f, f.kids(ev_)[1], env))
                    env0 = {"load:dequeue_pos": d_, "load:enqueue_pos": e_, "index_mask": 3, "this.index_mask": 3, "load:sequence": 0}
                    run_until(fn, env0, lambda f, x: False, on_event=on_event)
                    n_runs += 1
                    want = sorted((p_ & 3) for p_ in range(d_, e_))
                    if sorted(visited) != want and bad is None:
                        bad = (d_, e_, fill, sorted(visited), want)
        except Unknown as ex:
            ctx.broken.append("~vyukov_bounded_queue not executable (%s)" % ex)
            continue
        ctx.check(bad is None and bool(flow.find(fn, DTOR)), "OWN.destructor", Q + "~vyukov_bounded_queue#live-range",
                  "destructor destroys exactly the cells of [dequeue_pos, enqueue_pos) in all %d (position, fill level) cases" % n_runs,
                  "with dequeue_pos=%s, enqueue_pos=%s (%s of 4 cells in use) the destructor visits cells %s, the stored elements are in cells %s: elements are leaked "
                  "(never destroyed) or cells without an element are destroyed" % (bad or (0, 0, 0, [], [])), fn.where(), fn=fn)


# ---------------------------------------------------------------------------------------------------------------
def _resolve_construct(fn, nid, at=None):
    """the (payload, tag) construction a CAS operand denotes: through copies, casts and locals (the definition that reaches the CAS `at`;
    same-named locals of sibling scopes are told apart by reaching definitions)"""
    for _ in range(8):
        dn = fn.nodes[nid]
        if dn["k"] == "cast" or (dn["k"] == "construct" and len(fn.kids(nid)) == 1):
            nid = fn.kids(nid)[0]
        elif dn["k"] == "ref" and dn.get("dk") == "local":
            d = flow.unique_def(fn, dn["name"])
            if d is None and at is not None:
                rd = [x for x in _reaching_defs(fn, dn["name"], at)]
                if len(rd) == 1 and rd[0][0] == "def" and rd[0][1] is not None:
                    d = rd[0][1]
            if d is None:
                break
            nid = d
        else:
            break
    return nid if fn.nodes[nid]["k"] == "construct" else None


def kfifo(ctx):
    rid = "KF.aba-tags"
    ctx.rule(rid, "k-FIFO: every CAS on a tagged word installs a value whose tag differs from the expected value's tag by a non-zero constant "
                  "(finite evaluation of the tag expression); a push releases ownership only after its slot CAS succeeded and was committed")
    for C, fields in ((X + "kirsch_kfifo_queue::", ("entry::value", "kirsch_kfifo_queue::head_", "kirsch_kfifo_queue::tail_")),
                      (X + "kirsch_bounded_kfifo_queue::", ("entry::value", "kirsch_bounded_kfifo_queue::_head", "kirsch_bounded_kfifo_queue::_tail"))):
        n_cas = 0
        for fn in ctx.facts.fns:
            if not fn.pat.startswith(C) or fn.inlined_helper:
                continue
            for a in fn.atomics():
                if a["kind"] != "cas":
                    continue
                if not any(a["field"].endswith(f) or f.split("::")[-1] in a["field"] for f in fields):
                    continue
                n_cas += 1
                e = a["nid"]
                kids = fn.kids(e)
                desired = kids[2]
                inst = "%s#cas(%s)@%s" % (fn.pat, a["field"].split("::")[-1], fn.expr(desired)[:40])
                # the desired value is constructed as (payload, tag) with tag = <some value's>.mark() + c, c != 0: the tag argument is evaluated with
                # mark() = 5 and mark() = 9 (finite evaluation; the spelling `x.mark() + 1`, `1 + x.mark()`, a named local ... does not matter)
                des = _resolve_construct(fn, desired, e)
                delta = None
                if des is not None and len(fn.kids(des)) >= 2 and flow.has_src(fn, fn.kids(des)[1], "call:mark"):
                    try:
                        d1 = evalx(fn, fn.kids(des)[1], {"call:mark": (lambda: 5)}) - 5
                        d2 = evalx(fn, fn.kids(des)[1], {"call:mark": (lambda: 9)}) - 9
                        delta = d1 if d1 == d2 else None
                    except Unknown:
                        delta = None
                ctx.check(delta is not None and delta != 0, rid, inst, "desired tag = expected tag + %s" % delta,
                          "the CAS at line %d installs %s whose ABA tag is not derived from the expected value's tag plus a non-zero constant" % (fn.nodes[e]["l"], fn.expr(desired)),
                          fn.where(e), fn=fn)
        if n_cas < 6:
            ctx.broken.append("k-FIFO %s: only %d tagged CAS sites found" % (C, n_cas))
    rid2 = "KF.protocol"
    ctx.rule(rid2, "k-FIFO protocol: push releases ownership only after the slot CAS succeeded and committed() confirmed it; pop returns a value only after "
                   "winning the slot CAS; head/tail advance by CAS; the unbounded variant marks a segment deleted before advancing head and reclaims it only on success")
    for C in (X + "kirsch_kfifo_queue::", X + "kirsch_bounded_kfifo_queue::"):
        pushf = "push" if "bounded" not in C else "try_push"
        for fn in flow._shapes(ctx, C + pushf):
            rel = flow.find(fn, call("release"))
            slot = cas_on("entry::value", "slot CAS")
            com = flow.find(fn, call("committed"))
            inst = C + pushf
            ctx.check(bool(rel) and bool(com), rid2, inst + "#shape", "push releases ownership and validates with committed()",
                      "push must validate its insertion with committed() and release ownership (release calls %d, committed calls %d)" % (len(rel), len(com)), fn.where(), fn=fn)
            for r in rel:
                ok, path, n = flow.only_via(fn, r, lambda f_, nid: flow.node_matches(f_, nid, slot), True)
                ok2, p2, n2 = flow.only_via(fn, r, lambda f_, nid: nid in com, True)
                ctx.check(ok and n > 0 and ok2 and n2 > 0, "OWN.release", inst + "#release|stored+committed", "ownership released only after slot CAS success and committed()",
                          "traits::release(value) is reachable without a successful, committed slot CAS: the caller loses a value that was not enqueued", fn.where(r), fn=fn)
            if "bounded" in C:
                for r in [r for r in flow.find(fn, {"k": "return"}) if fn.kids(r) and fn.nodes[fn.kids(r)[0]].get("v") == 0]:
                    ok = not any(fn.event_reaches(x, r) for x in rel)
                    ctx.check(ok, "OWN.release", inst + "#false-keeps-ownership", "a rejected push leaves the value with the caller", "try_push returns false after releasing the value", fn.where(r), fn=fn)
        popf = "do_pop" if "bounded" in C else "try_pop"
        for fn in flow._shapes(ctx, C + popf):
            slot = cas_on("entry::value", "slot CAS")
            got = [e for e in flow.find(fn, {"k": "call"}) if _is_param_call(fn, e, 0)]
            for g in got[:2]:
                ok, path, n = flow.only_via(fn, g, lambda f_, nid: flow.node_matches(f_, nid, slot), True)
                ctx.check(ok and n > 0, rid2, C + popf + "#value|won-slot", "a value is taken only after winning the slot CAS", "pop hands out a value without winning the slot CAS", fn.where(g), fn=fn)
    K = X + "kirsch_kfifo_queue::"
    for fn in flow._shapes(ctx, K + "advance_head"):
        st = flow.find(fn, {"k": "call", "field": "segment::deleted", "op": "store", "desc": "deleted.store(true)"})
        hc = flow.find(fn, cas_on("kirsch_kfifo_queue::head_", "head_ CAS"))
        ok = bool(st) and bool(hc) and all(any(fn.before(s, c) for s in st) for c in hc)
        ctx.check(ok, rid2, K + "advance_head#deleted<head-cas", "segment marked deleted before head is advanced",
                  "the head segment must be marked deleted before the head CAS (a concurrent push into it must notice)", fn.where(), fn=fn)
    for fn in flow._shapes(ctx, K + "advance_tail"):
        tc = flow.find(fn, cas_on("kirsch_kfifo_queue::tail_", "tail_ CAS")) + flow.find(fn, cas_on("segment::next", "next CAS"))
        dl = flow.find(fn, {"k": "delete"}) + flow.find(fn, call("release_new_segment"))
        ctx.check(bool(tc), rid2, K + "advance_tail#cas", "tail advanced by CAS", "advance_tail must advance tail_ by CAS", fn.where(), fn=fn)
    # region predicate of the bounded variant: tail_old lies in the circular interval (head, tail]
    from .evalx import eval_pure
    B_ = X + "kirsch_bounded_kfifo_queue::"
    # committed() works on the slot the pusher wrote
    for C in (X + "kirsch_kfifo_queue::", B_):
        for fn in flow._shapes(ctx, C + "committed"):
            pidx = [i_ for i_, p_ in enumerate(fn.params) if "int" in p_.get("t", "") or "long" in p_.get("t", "")]
            if not pidx:
                continue
            want = "param#%d" % pidx[-1]
            slots = [a_ for a_ in fn.atomics() if a_["field"].endswith("entry::value")]
            badc = None
            for a_ in slots:
                obj = a_["obj"]
                idxs = [x for x in fn.subtree(obj) if fn.nodes[x]["k"] == "index" or (fn.nodes[x]["k"] == "call" and fn.nodes[x].get("callee", "").endswith("operator[]"))]
                for x in idxs:
                    s_ = flow.srcs(fn, fn.kids(x)[1])
                    if "bounded" in C and not (want in s_ and not any(t.startswith("param#") and t != want for t in s_)):
                        badc = (a_["nid"], fn.expr(fn.kids(x)[1]))
            if "bounded" in C:
                ctx.check(badc is None and bool(slots), rid2, C + "committed#same-slot", "every access of committed() addresses the slot index it was handed",
                          "committed() accesses _queue[%s] instead of the slot the pusher wrote (its index parameter): for k >= 2 the retracting CAS hits another slot, fails, and "
                          "committed() reports success although the value sits in a segment behind head (push succeeds, pop reports empty)" % (badc[1] if badc else ""),
                          fn.where(badc[0]) if badc else fn.where(), fn=fn)
    # tail never moves onto the head segment
    rid8 = "KF.tail-never-onto-head"
    ctx.rule(rid8, "bounded k-FIFO try_push: the CAS that advances _tail is reached only when the next segment is known not to be the head segment - "
                   "(tail + k) mod size != head index for the snapshot in use - or after this thread's own CAS advanced _head; a 'ring full' test that also "
                   "compares head's ABA tag does not establish that (the tag is bumped by committed() without moving head)")
    for fn in flow._shapes(ctx, B_ + "try_push"):
        tcas = flow.find(fn, cas_on("kirsch_bounded_kfifo_queue::_tail", "_tail CAS"))
        hcas = flow.find(fn, cas_on("kirsch_bounded_kfifo_queue::_head", "_head CAS"))
        if not tcas:
            ctx.broken.append("bounded k-FIFO try_push: no CAS on _tail")
            continue
        # is queue_full() a pure index test?
        qf_index_only = True
        for qf in ctx.facts.shapes(B_ + "queue_full"):
            if any(a_["field"].endswith("_head") or a_["field"].endswith("_tail") for a_ in qf.atomics()):
                qf_index_only = False
        is_next = lambda f, x: flow.has_src(f, x, "field:_queue_size") and flow.has_src(f, x, "load:_tail")
        is_head = lambda f, x: flow.has_src(f, x, "load:_head") and not flow.has_src(f, x, "field:_queue_size")
        nxt_is_head = flow.cmp_want(is_next, is_head)

        def want(f, nid):
            if nid in hcas:
                return True                                     # this thread moved head forward
            n_ = f.nodes[nid]
            if n_["k"] == "call" and n_.get("callee", "").endswith("::queue_full") and not n_.get("inlined"):
                return False if qf_index_only else None         # 'not full' helps only if the helper is the pure index test
            w_ = nxt_is_head(f, nid)
            return None if w_ is None else (not w_)             # next segment != head segment
        for t_ in tcas:
            ok, path, n = flow.only_via_want(fn, t_, want)
            ctx.check(ok and n > 0, rid8, B_ + "try_push#tail-advance|next-segment-not-head", "tail is advanced only when the next segment is not the head segment",
                      "the CAS that advances _tail is reachable although (tail + k) mod size may equal the head index: queue_full() also requires head to be unchanged, "
                      "so after a tag-only bump of head (committed() of a concurrent push into the head segment) the full ring is taken for 'not full' and tail is moved "
                      "ONTO the head segment - tail laps head, stored elements fall outside [head, tail] and try_pop reports empty although elements are stored",
                      fn.where(t_), fn=fn, path=flow.describe_path(fn, path))
    # the (head, tail) pair judged by the region predicates is a validated snapshot
    rid9 = "KF.region-snapshot-consistent"
    ctx.rule(rid9, "bounded k-FIFO committed(): the (_head, _tail) pair handed to the region predicates is a consistent snapshot - after the _head load "
                   "_tail is read again and the predicates are reached only through the 'equal' edge of the comparison of that re-read with the tail "
                   "value in use (tail's tag changes with every update, so equality means both values were current at the same instant).  Two unrelated "
                   "loads pair a stale position with a fresh one: a stale tail that head has meanwhile passed reads as a wrapped ring and a segment "
                   "behind head is accepted (F24); a stale head makes pushes and pops fail on a healthy queue (observed with the suite)")
    for fn in flow._shapes(ctx, B_ + "committed"):
        preds = [e for b_, i_, e, n_ in fn.events() if n_["k"] == "call" and n_.get("callee", "").split("::")[-1] in ("in_valid_region", "not_in_valid_region")]
        if not preds:
            ctx.broken.append("KF.region-snapshot-consistent: committed() does not call in_valid_region / not_in_valid_region any more")
            continue
        is_tail = lambda f, x: flow.has_src(f, x, "load:_tail") and not flow.has_src(f, x, "load:_head")
        tails_equal = flow.cmp_want(is_tail, is_tail)
        for pe in preds:
            kids_ = fn.kids(pe)
            args = kids_[1:] if fn.nodes[pe].get("member") else kids_
            hl = set()
            for a_ in args:
                for ld in flow.src_loads(fn, a_):
                    if fn.atomic(ld)["field"].endswith("::_head"):
                        hl.add(ld)
            if not hl:
                ctx.broken.append("KF.region-snapshot-consistent: could not find the _head load that feeds %s" % fn.expr(pe)[:60])
                continue
            reloads = set()

            def want(f, nid, hl=hl, reloads=reloads):
                w_ = tails_equal(f, nid)
                if w_ is None:
                    return None
                # one operand must come from a _tail load that is executed after the _head load
                late = [ld for ld in flow.src_loads(f, nid) if f.atomic(ld)["field"].endswith("::_tail") and all(f.before(h_, ld) for h_ in hl)]
                if not late:
                    return None
                reloads.update(late)
                return w_
            ok, path, n = flow.only_via_want(fn, pe, want)
            leaf = fn.nodes[pe]["callee"].split("::")[-1]
            ctx.check(ok and n > 0, rid9, B_ + "committed#%s|validated-pair" % leaf,
                      "the pair is validated by re-reading _tail after the _head load",
                      "%s() judges a (_head, _tail) pair that was read by two unrelated loads (no re-read of _tail after the _head load guards the call): a pusher "
                      "delayed between the two loads pairs a stale tail with a head that has already passed it; tail < head then reads as a wrapped ring, the "
                      "pusher's segment behind head is accepted as valid, try_push reports success and the value is stranded (pop reports empty)" % leaf,
                      fn.where(pe), fn=fn, path=flow.describe_path(fn, path))
    # head and tail move in whole segments
    rid7 = "KF.segment-step"
    ctx.rule(rid7, "bounded k-FIFO: every CAS on _head / _tail installs either the same index (tag-only bump) or the index of the next segment, "
                   "(index + k) mod queue_size - finite evaluation of the index argument of the desired value for k in {2,3}, 3 segments, every segment start")
    n_step = 0
    for fn in ctx.facts.fns:
        if not fn.pat.startswith(B_) or fn.inlined_helper:
            continue
        for a in fn.atomics():
            if a["kind"] != "cas" or not (a["field"].endswith("::_head") or a["field"].endswith("::_tail")):
                continue
            e = a["nid"]
            des = fn.kids(e)[2]
            des = _resolve_construct(fn, des, e)
            if des is None or len(fn.kids(des)) < 2:
                ctx.broken.append("%s: desired value of the %s CAS is not a marked_idx(index, tag) construction" % (fn.pat, a["field"].split("::")[-1]))
                continue
            idx_expr = fn.kids(des)[0]
            bad = None
            try:
                for k in (2, 3):
                    size = 3 * k
                    for h in range(0, size, k):
                        env = {"call:get": (lambda h=h: h), "_k": k, "this._k": k, "_queue_size": size, "this._queue_size": size}
                        got = evalx(fn, idx_expr, env)
                        if got not in (h, (h + k) % size):
                            bad = (k, size, h, got)
            except Unknown as ex:
                ctx.broken.append("%s: index of the desired %s not evaluable (%s)" % (fn.pat, a["field"].split("::")[-1], ex))
                continue
            n_step += 1
            ctx.check(bad is None, rid7, "%s#cas(%s)@L-%s" % (fn.pat, a["field"].split("::")[-1], fn.expr(idx_expr)[:40]), "index stays or moves to the next segment",
                      "with k=%s, queue_size=%s the CAS moves %s from index %s to %s, which is not a segment start: pops then scan a window straddling two segments "
                      "(elements overtaken by k or more) and head can never meet tail again (pop on a drained queue / push on a full one never return)" % (
                          (bad[0], bad[1], a["field"].split("::")[-1], bad[2], bad[3]) if bad else (0, 0, "", 0, 0)), fn.where(e), fn=fn)
    if n_step < 4:
        ctx.broken.append("KF.segment-step: only %d head/tail CAS sites evaluated" % n_step)
    rid4 = "KF.region-predicate"
    ctx.rule(rid4, "bounded k-FIFO: in_valid_region(tail_old, tail_current, head_current) holds exactly when tail_old lies in the circular interval "
                   "(head_current, tail_current] - exhaustive finite evaluation of the predicate over all index triples of a ring of size 6")
    for fn in flow._shapes(ctx, B_ + "in_valid_region"):
        if len(fn.params) != 3:
            ctx.broken.append("in_valid_region: expected three parameters")
            continue
        names = [p_["name"] for p_ in fn.params]
        N = 6 if ctx.tier != "thorough" else 10
        bad = None
        try:
            for to in range(N):
                for tc in range(N):
                    for hc in range(N):
                        got = bool(eval_pure(fn, dict(zip(names, (to, tc, hc)))))
                        ref = 1 <= ((to - hc) % N) <= ((tc - hc) % N)
                        if got != ref and bad is None:
                            bad = (to, tc, hc, got)
        except Unknown as ex:
            ctx.broken.append("in_valid_region not evaluable: %s" % ex)
            continue
        ctx.exhaustive[rid4] = True
        ctx.check(bad is None, rid4, B_ + "in_valid_region#circular-interval", "agrees with 'tail_old in (head, tail]' on all %d triples" % (N ** 3),
                  "in_valid_region(tail_old=%s, tail=%s, head=%s) returns %s but tail_old is %s the window (head, tail]: a push whose segment fell out of the window is "
                  "accepted as committed (element stranded: false empty, unbounded overtaking) or a valid one is rolled back" % (
                      (bad + ("inside" if not bad[3] else "outside",)) if bad else (0, 0, 0, 0, "")), fn.where(), fn=fn)
    # the complementary predicate: an insertion whose segment lies strictly outside [head, tail] must be rolled back
    for fn in flow._shapes(ctx, B_ + "not_in_valid_region"):
        if len(fn.params) != 3:
            ctx.broken.append("not_in_valid_region: expected three parameters")
            continue
        names = [p_["name"] for p_ in fn.params]
        N = 6 if ctx.tier != "thorough" else 10
        bad = None
        try:
            for to in range(N):
                for tc in range(N):
                    for hc in range(N):
                        outside = ((to - hc) % N) > ((tc - hc) % N)     # tail_old not in the closed circular interval [head, tail]
                        if outside and not bool(eval_pure(fn, dict(zip(names, (to, tc, hc))))) and bad is None:
                            bad = (to, tc, hc)
        except Unknown as ex:
            ctx.broken.append("not_in_valid_region not evaluable: %s" % ex)
            continue
        ctx.check(bad is None, rid4, B_ + "not_in_valid_region#outside=>rollback", "true for every tail_old outside [head, tail] on all %d triples" % (N ** 3),
                  "not_in_valid_region(tail_old=%s, tail=%s, head=%s) returns false although tail_old lies outside [head, tail]: committed() then treats the insertion as "
                  "'at the head segment' and accepts it after a tag-only CAS on head - the push reports success but its element sits in a segment that pops do not "
                  "reach (pop reports empty while the element is stored; it is overtaken by every element pushed until the ring wraps)" % (bad or (0, 0, 0)), fn.where(), fn=fn)
    # the slot scan of a segment is complete for every random start offset
    rid6 = "KF.scan-complete"
    ctx.rule(rid6, "k-FIFO find_index: for every k in {1,2,3,5} and every random start offset the scanned indices are exactly the k slots of the segment "
                   "(finite evaluation of the index expression and the loop bound)")
    for C in (X + "kirsch_kfifo_queue::", B_):
        for fn in flow._shapes(ctx, C + "find_index"):
            loop_var = None
            for b, i, e, n in fn.events():
                if n["k"] == "un" and n["op"] == "++" and fn.nodes[fn.kids(e)[0]]["k"] == "ref":
                    loop_var = fn.nodes[fn.kids(e)[0]]["name"]
            conds = [blk["cond"] for b, blk in fn.blocks.items() if "cond" in blk and blk.get("term") in ("ForStmt", "WhileStmt") and b in fn.live_blocks()]
            # the index used for the slot load
            lds = flow.find(fn, {"k": "call", "field": "entry::value", "op": "load"})
            idx_node = None
            for l in lds:
                o = fn.kids(l)[0]
                for x in fn.subtree(o):
                    if fn.nodes[x]["k"] in ("index",) or (fn.nodes[x]["k"] == "call" and fn.nodes[x].get("callee", "").endswith("operator[]")):
                        kk = fn.kids(x)
                        if len(kk) >= 2:
                            idx_node = kk[-1]
            rnd = [v["name"] for b, i, e, n in fn.events() if n["k"] == "decl" for v in n["vars"] if "init" in v and "call:random" in flow.srcs(fn, v["init"])]
            if loop_var is None or not conds or idx_node is None or not rnd:
                ctx.broken.append("find_index idiom not recognised in %s" % C)
                continue
            bounded = "bounded" in C
            bad = None
            try:
                for k in ((1, 2, 3, 5) if ctx.tier != "thorough" else range(1, 12)):
                    segs = 3
                    for r in range(k):
                        for start in ([0] if not bounded else [0, k, 2 * k]):
                            base = {rnd[0]: r, "k": k, "_k": k, "this._k": k, "_queue_size": k * segs, "this._queue_size": k * segs}
                            if bounded and fn.params:
                                base[fn.params[0]["name"]] = start
                            seen_idx = []
                            i = 0
                            while i < k + 2:
                                env = dict(base)
                                env[loop_var] = i
                                if not evalx(fn, conds[0], env):
                                    break
                                seen_idx.append(evalx(fn, idx_node, env))
                                i += 1
                            want = sorted((start + j) % (k * segs) if bounded else j for j in range(k))
                            if sorted(seen_idx) != want and bad is None:
                                bad = (k, r, start, seen_idx, want)
            except Unknown as ex:
                ctx.broken.append("find_index of %s not evaluable: %s" % (C, ex))
                continue
            ctx.exhaustive[rid6] = True
            ctx.check(bad is None, rid6, C + "find_index#covers-all-k-slots", "scan covers exactly the k slots of the segment for every start offset",
                      "find_index with k=%s, random offset %s, segment start %s scans slots %s instead of %s: elements in unscanned slots are invisible (false 'empty' / "
                      "segment never drained) or foreign slots are touched" % (bad if bad else (0, 0, 0, 0, 0)), fn.where(), fn=fn)
    # a pop that takes from the segment that is both head and tail advances the tail first (both variants)
    rid5 = "KF.tail-advance"
    ctx.rule(rid5, "k-FIFO pop: when the head segment is also the tail segment the tail is advanced before the element is taken, so that pushes move on to a "
                   "new segment (otherwise elements in a short queue are overtaken without bound)")
    for C, headf, tailf, adv in ((X + "kirsch_kfifo_queue::", "head_", "tail_", call("advance_tail")),
                                 (B_, "_head", "_tail", cas_on("kirsch_bounded_kfifo_queue::_tail", "_tail CAS"))):
        popf = "do_pop" if "bounded" in C else "try_pop"
        pats = [C + popf] + ([C + "do_pop"] if "bounded" not in C else [])
        done = False
        for pat in pats:
            for fn in ctx.facts.shapes(pat):
                slot = [e for e in flow.find(fn, cas_on("entry::value", "slot CAS"))]
                advs = flow.find(fn, adv)
                if not slot:
                    continue
                done = True
                same = lambda f_, nid: flow.cmp_between(f_, nid, ("==",), ["load:" + headf], ["load:" + tailf])
                okg = bool(advs)
                for a in advs:
                    o, pth, n = flow.only_via(fn, a, same, True)
                    okg = okg and o and n > 0
                okr = bool(advs) and all(any(fn.event_reaches(a, s_) for a in advs) for s_ in slot)
                ctx.check(okg and okr, rid5, pat + "#advance-tail|head==tail", "tail advanced (when head == tail) before the slot CAS",
                          "pop takes an element from the segment that is both head and tail without advancing the tail first", fn.where(slot[0]), fn=fn)
        if not done:
            ctx.broken.append("k-FIFO pop path with a slot CAS not found for %s" % C)
    # field fit (bounded): queue size validated against the index width by a check that survives NDEBUG
    B = X + "kirsch_bounded_kfifo_queue::"
    rid3 = "KF.field-fit"
    ctx.rule(rid3, "bounded k-FIFO: the ring index must fit the index bits of marked_idx: the constructor establishes k*num_segments <= 2^bits by a "
                   "comparison followed by a throw (not an assert)")
    recs = [r for r in ctx.facts.records if r["pat"] == B + "marked_idx"]
    bits = None
    for r in recs:
        if "bits" in r.get("consts", {}):
            bits = r["consts"]["bits"]
    if bits is None:
        ctx.broken.append("kirsch_bounded_kfifo_queue::marked_idx::bits not found")
    else:
        thr = []
        for pat in (B + "kirsch_bounded_kfifo_queue", B + "checked_queue_size"):
            for fn in ctx.facts.shapes(pat):
                thr += [(fn, t) for t in flow.find(fn, {"k": "throw"})]
        lim = None
        for fn, t in thr:
            for b, blk in fn.blocks.items():
                if "cond" in blk:
                    for x in fn.subtree(blk["cond"]):
                        v = fn.nodes[x].get("v")
                        if v is not None and v > 255:
                            lim = v if lim is None else min(lim, v)
        ok = bool(thr) and lim is not None and lim <= (1 << bits)
        # the size check itself, executed with 64-bit wrap-around arithmetic on a grid that includes products beyond 2^64
        from .evalx import run_until as _run_until
        for fn in ctx.facts.shapes(B + "checked_queue_size"):
            if len(fn.params) != 2:
                continue
            throws = set(flow.find(fn, {"k": "throw"}))
            badc = None
            try:
                for k_ in (1, 2, 3, 1 << 16, 1 << 32, (1 << 32) + 1, 1 << 33):
                    for s_ in (1, 2, 5, 1 << 16, 1 << 31, 1 << 32, 12297829382473034412, 1 << 63, (1 << 64) - 1):
                        res = {}

                        def on_event(f, e, env, res=res):
                            if f.nodes[e]["k"] == "return" and f.kids(e):
                                res["ret"] = evalx(f, f.kids(e)[0], env)
                        env, at = _run_until(fn, {fn.params[0]["name"]: k_, fn.params[1]["name"]: s_}, lambda f, e: e in throws, on_event=on_event)
                        threw = at is not None
                        exact = k_ * s_
                        if (exact > (1 << bits)) != threw or (not threw and res.get("ret") != exact):
                            badc = badc or (k_, s_, "throws" if threw else "accepts (size %s)" % res.get("ret"), exact)
            except Unknown as ex:
                ctx.broken.append("checked_queue_size not executable (%s)" % ex)
                continue
            ctx.check(badc is None, rid3, B + "checked_queue_size#overflow-safe", "the size check decides on the exact product for all grid points incl. products beyond 2^64",
                      "checked_queue_size(k=%s, num_segments=%s) %s although k*num_segments = %s: a product that wraps around 2^64 passes the bound, the queue is built with a "
                      "ring that is not k*num_segments slots long (not even a multiple of k): pops return values that are not among the k oldest / nothing can be stored" % (
                          badc or (0, 0, "", 0)), fn.where(), fn=fn)
        ctx.check(ok, rid3, B + "kirsch_bounded_kfifo_queue#size<=2^bits", "constructor rejects sizes above %s <= 2^%d" % (lim, bits),
                  "marked_idx stores the ring index in %d bits but the constructor accepts any k*num_segments (%s): for larger queues head/tail indexes are truncated and "
                  "push/pop never terminate" % (bits, "no throwing size check" if not thr else "limit %s" % lim), "xenium/kirsch_bounded_kfifo_queue.hpp", None)


# ---------------------------------------------------------------------------------------------------------------
def _reaching_defs(fn, var, at_nid):
    """nearest definitions of local `var` on every backward path from event at_nid: list of ('def', rhs node) / ('cas', field) / ('entry', None)"""
    pos = fn.pos()
    if at_nid not in pos:
        return []
    tb, ti = pos[at_nid]

    def defs_in_block(b, upto):
        out = None
        elems = fn.blocks[b]["elems"]
        rng = range(len(elems)) if upto is None else range(upto)
        for i in rng:
            e = elems[i]
            n = fn.nodes[e]
            if n["k"] == "decl":
                for v in n["vars"]:
                    if v["name"] == var:
                        out = ("def", v.get("init"))
            elif n["k"] == "bin" and n["op"] == "=":
                c = fn.kids(e)
                if fn.nodes[c[0]]["k"] == "ref" and fn.nodes[c[0]].get("name") == var:
                    out = ("def", c[1])
            elif n["k"] == "call":
                c = fn.kids(e)
                if n.get("callee", "").endswith("operator=") and n.get("member") and c and fn.nodes[c[0]]["k"] == "ref" and fn.nodes[c[0]].get("name") == var:
                    out = ("def", c[1] if len(c) > 1 else None)
                a = fn.atomic(e)
                if a and a["kind"] == "cas" and len(c) > 1 and fn.nodes[c[1]]["k"] == "ref" and fn.nodes[c[1]].get("name") == var and e != at_nid:
                    out = ("cas", a["field"])
        return out
    res = []
    d = defs_in_block(tb, ti)
    if d:
        return [d]
    seen = set()
    stack = list(fn.preds()[tb])
    while stack:
        b = stack.pop()
        if b in seen:
            continue
        seen.add(b)
        d = defs_in_block(b, None)
        if d:
            res.append(d)
            continue
        ps = fn.preds()[b]
        if not ps and b == fn.entry:
            res.append(("entry", None))
        stack.extend(ps)
    return res


def swing_cas_expected(ctx):
    rid = "Q.swing-expected"
    ctx.rule(rid, "every CAS that swings a queue's _head/_tail expects a value derived from that same field (the guard acquired from it, a load of it, "
                  "or the refresh by a failed CAS on it) on every path: otherwise the swing - in particular the helping swing that lets other threads make "
                  "progress when the owner of a half-finished push is stalled - can never succeed")
    sites = {
        X + "michael_scott_queue::push": ("_tail",), X + "michael_scott_queue::pop_node": ("_tail", "_head"),
        X + "ramalhete_queue::push": ("_tail",), X + "ramalhete_queue::pop": ("_head",),
        X + "nikolaev_queue::push": ("_tail",), X + "nikolaev_queue::do_pop": ("_head",),
    }
    for pat, fields in sites.items():
        for fn in flow._shapes(ctx, pat):
            for fld in fields:
                cas = [e for e in flow.find(fn, {"k": "call", "kind": "cas"}) if fn.atomic(e)["field"].endswith("::" + fld)]
                # variables derived from the field: guards acquired from it, values loaded from it
                derived = set()
                for b, i, e, n in fn.events():
                    if n["k"] == "call":
                        leaf = n.get("callee", "").split("::")[-1]
                        c = fn.kids(e)
                        if leaf == "acquire" and len(c) >= 2 and fn.field_of(c[1]).endswith("::" + fld) and fn.nodes[c[0]]["k"] == "ref":
                            derived.add(fn.nodes[c[0]]["name"])
                    if n["k"] == "decl":
                        for v in n["vars"]:
                            if "init" in v and re.search(r"\b%s\.(load|acquire)|acquire_guard\(this->%s" % (fld, fld), fn.expr(v["init"])):
                                derived.add(v["name"])
                for c_ in cas:
                    exp = fn.kids(c_)[1]
                    en = fn.nodes[exp]
                    inst = "%s#%s-cas@%s" % (pat, fld, fn.expr(fn.kids(c_)[2])[:24])
                    if en["k"] != "ref" or en.get("dk") != "local":
                        ctx.ok(rid, inst, "expected value is %s" % fn.expr(exp), fn.where(c_), nontrivial=False, fn=fn)
                        continue
                    rds = _reaching_defs(fn, en["name"], c_)
                    bad = None
                    for kind, rhs in rds:
                        if kind == "cas":
                            if not rhs.endswith("::" + fld):
                                bad = "refreshed by a failed CAS on another field (%s)" % rhs
                        elif kind == "entry" or rhs is None:
                            bad = "uninitialised / default value"
                        else:
                            names = {fn.nodes[x].get("name") for x in fn.subtree(rhs) if fn.nodes[x]["k"] == "ref"}
                            if not (names & derived) and not re.search(r"\b%s\.(load|exchange)\(" % fld, fn.expr(rhs)):
                                bad = "defined as %s, which is not derived from %s" % (fn.expr(rhs), fld)
                        if bad:
                            break
                    ctx.check(bad is None and bool(rds), rid, inst, "expected value derived from %s on all %d reaching definitions" % (fld, len(rds)),
                              "the CAS on %s at line %d expects '%s', which on some path is %s: this swing can never succeed; if it is the helping swing, every other "
                              "thread spins until the stalled owner finishes (not lock-free), and _%s lags forever" % (fld, fn.nodes[c_]["l"], en["name"], bad, fld.strip("_")),
                              fn.where(c_), fn=fn)


def kfifo_swing_expected(ctx):
    """unbounded k-FIFO: advance_tail / advance_head swing tail_ / head_ with the caller's snapshot as expected value"""
    rid = "Q.swing-expected"
    for pat, fld in ((X + "kirsch_kfifo_queue::advance_tail", "tail_"), (X + "kirsch_kfifo_queue::advance_head", "head_")):
        for fn in flow._shapes(ctx, pat):
            cas = [e for e in flow.find(fn, {"k": "call", "kind": "cas"}) if fn.atomic(e)["field"].endswith("::" + fld)]
            if not cas:
                ctx.broken.append("%s: no CAS on %s" % (pat, fld))
                continue
            for c_ in cas:
                exp = fn.kids(c_)[1]
                s_ = flow.srcs(fn, exp)
                inst = "%s#%s-cas@L-rel%d" % (pat, fld, cas.index(c_))
                ok = ("load:" + fld) in s_ and not any(t.startswith("load:") and t != "load:" + fld for t in s_)
                if not ok and any(t.startswith("param#") for t in s_) and not any(t.startswith("load:") for t in s_):
                    # the caller's snapshot: it must have been compared with the field (equal) before the swing, or be handed over by callers that loaded it
                    is_par = lambda f_, x: any(t.startswith("param#") for t in flow.srcs(f_, x)) and not flow.has_src(f_, x, "load:" + fld)
                    is_fld = lambda f_, x: flow.has_src(f_, x, "load:" + fld)
                    okv, path, n = flow.only_via_want(fn, c_, flow.cmp_want(is_par, is_fld))
                    ok = okv and n > 0
                    if not ok:
                        # validated by the callers? every call site passes a value loaded from the field
                        callers = [(g, e) for g in ctx.facts.fns for b, i, e, n_ in g.events()
                                   if n_["k"] == "call" and n_.get("callee") == pat]
                        idx = int(sorted(t for t in s_ if t.startswith("param#"))[0][6:])
                        ok = bool(callers) and all(
                            ("load:" + fld) in flow.srcs(g, g.kids(e)[idx + (1 if g.nodes[e].get("member") else 0)]) for g, e in callers
                            if len(g.kids(e)) > idx + (1 if g.nodes[e].get("member") else 0))
                ctx.check(ok, rid, inst, "expected value is the snapshot of %s" % fld,
                          "the CAS on %s at line %d expects '%s' (sources: %s), which is not a snapshot of %s: this swing can never succeed; if it is the helping "
                          "swing, every other thread spins until the stalled owner of the half-finished append finishes (not lock-free)" % (
                              fld, fn.nodes[c_]["l"], fn.expr(exp), ", ".join(sorted(s_)), fld), fn.where(c_), fn=fn)


def destructor_walks(ctx):
    """OWN.destructor#list-walk: the destructors of the node-based queues are executed on lists of 1..4 nodes (finite execution of a pure pointer
    walk, rules/walk.py): every node is released exactly once, the link of a node is never read after the node was released, and where the
    elements live in the node and are not destroyed by the node's own destructor (k-FIFO segments) they are destroyed before the node goes."""
    from .walk import ListWalk, Stuck
    rid = "OWN.destructor"
    ctx.rule(rid, "queue / node destructors destroy exactly the elements still owned: ranges bounded by the container's own counters; the list-walking "
                  "destructors, executed on lists of 1..4 nodes, release every node exactly once, never read a link through a released node, and drain "
                  "a segment's remaining items before releasing it")
    table = [
        (X + "michael_scott_queue::~michael_scott_queue", "_head", ()),
        (X + "ramalhete_queue::~ramalhete_queue", "_head", ()),
        (X + "nikolaev_queue::~nikolaev_queue", "_head", ()),
        (X + "kirsch_kfifo_queue::~kirsch_kfifo_queue", "head_", ("delete_remaining_items",)),
    ]
    for pat, head, drains in table:
        for fn in flow._shapes(ctx, pat):
            bad = None
            try:
                for n_ in range(1, 5):
                    w = ListWalk(fn, n_, head_field=head)
                    released, drained, order = [], set(), []

                    def on_event(w_, e, released=released, drained=drained):
                        n = fn.nodes[e]
                        leaf = n.get("callee", "").split("::")[-1] if n["k"] == "call" else None
                        if n["k"] == "delete" or leaf in ("release_segment",):
                            k = fn.kids(e)
                            v = w_.ev(k[-1])
                            released.append(v)
                            w_.freed.add(v)
                        elif leaf in drains:
                            k = fn.kids(e)
                            v = w_.ev(k[0])
                            if v in w_.freed:
                                w_.read_after_free.append(v)
                            drained.add(v)
                    w.run(lambda f, e: False, on_event=on_event)
                    if w.read_after_free:
                        bad = "on a list of %d nodes node #%d is accessed after it was released" % (n_, w.read_after_free[0])
                    elif sorted(released) != list(range(1, n_ + 1)):
                        bad = "on a list of %d nodes the destructor releases nodes %s (every node 1..%d must be released exactly once)" % (n_, released, n_)
                    elif drains and drained != set(range(1, n_ + 1)):
                        bad = "on a list of %d nodes the remaining items of nodes %s are not destroyed" % (n_, sorted(set(range(1, n_ + 1)) - drained))
                    if bad:
                        break
            except Stuck as ex:
                ctx.broken.append("%s: destructor walk not executable (%s)" % (pat, ex))
                continue
            ctx.exhaustive[rid + "#list-walk"] = True
            ctx.check(bad is None, rid, pat + "#list-walk", "lists of 1..4 nodes: every node released exactly once, no link read after release" +
                      (", items drained before release" if drains else ""),
                      "%s: nodes / elements are leaked, freed twice or read after free when the queue is destroyed" % bad, fn.where(), fn=fn)
    # bounded k-FIFO: every slot of the ring is visited; unbounded k-FIFO: every slot of a segment
    from .evalx import run_until
    for pat, bound in ((X + "kirsch_bounded_kfifo_queue::~kirsch_bounded_kfifo_queue", "_queue_size"), (X + "kirsch_kfifo_queue::segment::delete_remaining_items", "k")):
        for fn in flow._shapes(ctx, pat):
            dels = flow.find(fn, call("delete_value"))
            bad = None
            try:
                for size in (1, 2, 5):
                    seen = []

                    def on_event(f, e, env, seen=seen):
                        if e in dels:
                            idx = [x for x in f.subtree(e) if f.nodes[x]["k"] == "ref" and f.nodes[x].get("dk") == "local" and f.nodes[x]["name"] in env]
                            seen.append(tuple(env[f.nodes[x]["name"]] for x in idx))
                    run_until(fn, {"this." + bound: size}, lambda f, e: False, on_event=on_event)
                    if len(seen) != size or len(set(seen)) != size or any(len(t) == 0 or not all(0 <= v < size for v in t) for t in seen):
                        bad = "%d slots: delete_value applied %d times (slot indices %s)" % (size, len(seen), [t[0] if t else "?" for t in seen])
                        break
            except Unknown as ex:
                ctx.broken.append("%s: loop not executable (%s)" % (pat, ex))
                continue
            ctx.check(bad is None and bool(dels), rid, pat + "#all-slots", "every slot (1, 2, 5 slots) is handed to delete_value exactly once",
                      "%s: stored elements are leaked or destroyed twice when the queue is destroyed" % (bad or "no delete_value"), fn.where(), fn=fn)


def util_pure_functions(ctx):
    """UTIL.*: pure integer helpers the containers size and index their storage with, decided by finite evaluation over boundary grids."""
    from .pure import call_pure
    U = X + "utils::"
    rid = "UTIL.next-power-of-two"
    ctx.rule(rid, "utils::next_power_of_two(v), evaluated for v in 1..1100 and around every power of two up to 2^40, is the smallest power of two >= v; "
                  "utils::find_last_bit_set(v) is the position of the highest set bit (1-based), is_power_of_two is exact (capacities of nikolaev_bounded_queue "
                  "and vyukov_hash_map are rounded with these; every ring mask / cycle computation assumes a power of two)")
    grid = sorted(set(list(range(1, 1101)) + [x for k in range(2, 41) for x in ((1 << k) - 1, 1 << k, (1 << k) + 1)]))
    if ctx._on(rid):
        bad = None
        try:
            for v in grid:
                want = 1 << (v - 1).bit_length()
                got = call_pure(ctx.facts, U + "next_power_of_two", [v], pick=lambda f: f.params and f.params[0].get("sz") == 8)
                if got != want:
                    bad = "next_power_of_two(%d) = %s, expected %d" % (v, got, want)
                    break
                b = call_pure(ctx.facts, U + "find_last_bit_set", [v], pick=lambda f: f.params and f.params[0].get("sz") == 8)
                if b != v.bit_length():
                    bad = "find_last_bit_set(%d) = %s, expected %d" % (v, b, v.bit_length())
                    break
                p2 = call_pure(ctx.facts, U + "is_power_of_two", [v], pick=lambda f: f.params and f.params[0].get("sz") == 8)
                if bool(p2) != (v & (v - 1) == 0):
                    bad = "is_power_of_two(%d) = %s" % (v, p2)
                    break
        except Unknown as ex:
            ctx.broken.append("utils power-of-two helpers not evaluable (%s)" % ex)
            bad = False
        if bad is not False:
            fn = ctx.facts.shapes(U + "next_power_of_two")[0]
            ctx.exhaustive[rid] = True
            ctx.check(bad is None, rid, U + "next_power_of_two#smallest-power-of-two>=v", "%d values: results are exact" % len(grid),
                      "%s: a container created with such a capacity runs with a size that is not the power of two its index masks assume (slots shared between "
                      "ring positions, out-of-bounds ring accesses)" % bad, fn.where(), fn=fn)
    rid = "SCQ.remap-bijection"
    SCQ = X + "detail::nikolaev_scq::"
    ctx.rule(rid, "nikolaev_scq::remap_index with the shift of calc_remap_shift(capacity) maps the n = 2*capacity positions of every lap one-to-one onto the "
                  "slots [0, n) (capacities 1..1024, three laps): two positions sharing a slot, or a slot outside the array, lose / corrupt entries")
    if ctx._on(rid):
        bad = None
        try:
            for cap in (1, 2, 4, 8, 16, 32, 64, 512, 1024):
                sh = call_pure(ctx.facts, SCQ + "calc_remap_shift", [cap])
                n = 2 * cap
                for lap in range(3):
                    slots = [call_pure(ctx.facts, SCQ + "remap_index", [(lap * n + j) << 1, sh, n]) for j in range(n)]
                    if sorted(slots) != list(range(n)):
                        dup = sorted({s for s in slots if slots.count(s) > 1 or not (0 <= s < n)})[:4]
                        bad = "capacity %d (n = %d, shift %s), lap %d: positions map to slots %s... (slots %s shared or outside [0, %d))" % (cap, n, sh, lap, slots[:8], dup, n)
                        break
                if bad:
                    break
        except Unknown as ex:
            ctx.broken.append("remap_index not evaluable (%s)" % ex)
            bad = False
        if bad is not False:
            fn = ctx.facts.shapes(SCQ + "remap_index")[0]
            ctx.exhaustive[rid] = True
            ctx.check(bad is None, rid, SCQ + "remap_index#bijection-per-lap", "capacities 1..1024 x 3 laps: permutation of [0, n)",
                      "%s" % bad, fn.where(), fn=fn)
