"""K11 - wait constructs must not be reachable from operations documented lock-free / wait-free (C16)."""
import re

from . import flow

PURE_LEAVES = {"yield", "operator()", "pause"}
QUIET_STD = ("std::this_thread::yield", "std::move", "std::forward", "std::min", "std::max", "std::addressof", "std::get", "std::atomic_thread_fence")


def _writes_shared(fn, nid):
    a = fn.atomic(nid)
    return bool(a and a["kind"] in ("store", "rmw", "cas"))


class Purity:
    """a function is quiet if it performs no atomic write and calls only quiet functions (memoised over patterns)"""

    def __init__(self, facts):
        self.facts = facts
        self.memo = {}

    def quiet_pattern(self, pat, depth=0):
        if pat in self.memo:
            return self.memo[pat]
        if re.match(r"^xenium::reclamation::[a-z_]+::guard_ptr::(acquire|acquire_if_equal|reset|guard_ptr|~guard_ptr|operator=)$", pat) or pat == "xenium::acquire_guard":
            # publishing / withdrawing this thread's own protection never changes a condition another thread is waited for
            self.memo[pat] = True
            return True
        self.memo[pat] = True  # optimistic for recursion
        shapes = self.facts.shapes(pat)
        if not shapes:
            # no body in the facts: implicit special members, std:: / compiler helpers.  They cannot write a xenium atomic that another thread
            # waits for; blocking primitives are handled separately (LOCK_CALLS).
            # conservative: only a small set of helpers is known to be quiet; anything else may write shared state, so a cycle through it is
            # not classified as a wait construct (precision first: an armed check must be exact)
            parts = pat.split("::")
            r = pat in QUIET_STD or pat.startswith("std::chrono") or parts[-1] in (
                "operator==", "operator!=", "operator<", "operator>", "get", "mark", "operator->", "operator*", "operator conv", "operator bool")
            if not r and parts[0] == "xenium" and len(parts) > 2 and (parts[-1] == "operator=" or parts[-1].lstrip("~") == parts[-2]):
                r = True   # implicitly defined special member of a xenium class (std::atomic members are not copyable, so it copies plain state)
            self.memo[pat] = r
            return r
        r = True
        for fn in shapes[:6]:
            for b, i, e, n in fn.events():
                if _writes_shared(fn, e):
                    r = False
                    break
                if n["k"] in ("call", "construct"):
                    c = n.get("callee", "?")
                    if fn.atomic(e):
                        continue
                    if n["k"] == "construct" and not n.get("xen"):
                        continue
                    if depth > 6 or not self.quiet_pattern(c, depth + 1):
                        r = False
                        break
                if n["k"] in ("new", "delete", "throw"):
                    r = False
                    break
            if not r:
                break
        self.memo[pat] = r
        return r


CONST_MEMBER_LEAVES = ("get", "mark", "operator->", "operator*", "operator bool", "operator conv", "operator==", "operator!=", "version",
                       "item_count", "delete_marker", "is_locked", "load", "size", "empty", "value", "idx", "tag", "operator[]", "first", "second")


def _pure_pattern(purity, pat, depth=0):
    """quiet and without plain stores to anything but its own locals (its result depends only on its arguments and on shared memory)"""
    memo = purity.__dict__.setdefault("pure_memo", {})
    if pat in memo:
        return memo[pat]
    memo[pat] = True
    if not purity.quiet_pattern(pat):
        memo[pat] = False
        return False
    r = True
    for fn in purity.facts.shapes(pat)[:6]:
        for b, i, e, n in fn.events():
            lhs = None
            if n["k"] == "bin" and n["op"].endswith("=") and n["op"] not in ("==", "!=", "<=", ">="):
                lhs = fn.kids(e)[0] if fn.kids(e) else None
            elif n["k"] == "un" and n["op"] in ("++", "--"):
                lhs = fn.kids(e)[0] if fn.kids(e) else None
            if lhs is not None:
                ln = fn.nodes[lhs]
                if not (ln["k"] == "ref" and ln.get("dk") == "local"):
                    r = False
                    break
            if n["k"] == "call" and n.get("xen") and not fn.atomic(e) and depth < 6:
                if not _pure_pattern(purity, n.get("callee", "?"), depth + 1):
                    r = False
                    break
        if not r:
            break
    memo[pat] = r
    return r


def _vname(n):
    """a local's name, with the plugin's per-name variable number when the function has several variables of that name (different scopes)"""
    v = n.get("vid")
    return n["name"] if not v or v == 1 else "%s@%d" % (n["name"], v)


def _lname(fn, nid, depth=0):
    """name of the local storage an lvalue expression denotes: a local / parameter, or a plain member path of it ('info.next', 'pos.info.cur')"""
    n = fn.nodes[nid]
    if n["k"] == "ref" and n.get("dk") in ("local", "param"):
        return _vname(n)
    if n["k"] == "member" and not n.get("t", "").startswith("std::atomic") and depth < 4:
        k = fn.kids(nid)
        if k and not n.get("arrow"):
            base = _lname(fn, k[0], depth + 1)
            if base:
                return base + "." + str(n.get("leaf"))
    return None


def _names_in(fn, nid):
    out = set()
    for x in fn.subtree(nid):
        nm = _lname(fn, x)
        if nm:
            out.add(nm)
    return out


def _cycle_locals(fn, cyc, purity):
    """(defined, variant): local storage (re)defined along this elementary cycle, and the part of it whose value may differ between two
    consecutive solo iterations: defined by an unknown write, (transitively) in terms of itself (cursor = cursor->next, ++i), or set to
    something else than what it held when the cycle was entered (start = &head: the first iteration changes the state, so nothing is
    claimed about the following ones)"""
    defs = {}
    cyc_events = set()
    declared_on_cycle = set()
    for b in cyc:
        for e in fn.blocks[b]["elems"]:
            cyc_events.add(e)
            n = fn.nodes[e]
            k = fn.kids(e)
            if n["k"] == "decl":
                for v in n["vars"]:
                    declared_on_cycle.add(_vname(v))
                    if "init" in v:
                        defs.setdefault(_vname(v), []).append(v["init"])
            elif n["k"] == "bin" and n["op"].endswith("=") and n["op"] not in ("==", "!=", "<=", ">="):
                nm = _lname(fn, k[0]) if k else None
                if nm:
                    defs.setdefault(nm, []).append(k[1] if n["op"] == "=" and len(k) > 1 else None)
            elif n["k"] == "un" and n["op"] in ("++", "--", "&"):
                nm = _lname(fn, k[0]) if k else None
                if nm:
                    defs.setdefault(nm, []).append(None)
            elif n["k"] == "call" and not fn.atomic(e):
                c = n.get("callee", "?")
                leaf = c.split("::")[-1]
                first = 0
                if n.get("member") and k:
                    first = 1
                    nm = _lname(fn, k[0])
                    if nm:
                        if leaf == "operator=":
                            defs.setdefault(nm, []).append(k[1] if len(k) > 1 else None)
                        elif leaf in ("acquire", "acquire_if_equal"):
                            defs.setdefault(nm, []).append(e)
                        elif leaf not in CONST_MEMBER_LEAVES:
                            defs.setdefault(nm, []).append(None)
                # a local passed to a function that is not known to be pure may be modified through a reference
                if c not in QUIET_STD and leaf not in CONST_MEMBER_LEAVES and leaf not in ("acquire", "acquire_if_equal") and \
                        not (purity.facts.shapes(c) and _pure_pattern(purity, c)):
                    for a_ in k[first:]:
                        nm = _lname(fn, a_)
                        if nm:
                            defs.setdefault(nm, []).append(None)
    dep = {}
    variant = set()
    # definitions outside the cycle (flow-insensitive): does the cycle put something else into the local than it held on entry?
    outside = {}
    for b_, i_, e, n in fn.events():
        if e in cyc_events:
            continue
        k = fn.kids(e)
        if n["k"] == "decl":
            for v in n["vars"]:
                if _vname(v) in defs and "init" in v and v["init"] not in cyc_events:
                    outside.setdefault(_vname(v), []).append(v["init"])
        elif n["k"] == "bin" and n["op"] == "=" and k and _lname(fn, k[0]) in defs and len(k) > 1:
            outside.setdefault(_lname(fn, k[0]), []).append(k[1])
        elif n["k"] == "call" and n.get("member") and n.get("callee", "").endswith("operator=") and k and _lname(fn, k[0]) in defs and len(k) > 1:
            outside.setdefault(_lname(fn, k[0]), []).append(k[1])
    for nm, ds in defs.items():
        dep[nm] = set()
        if fn_is_param(fn, nm):
            variant.add(nm)     # value on entry unknown
        for d in ds:
            if d is None:
                variant.add(nm)
                continue
            dn = fn.nodes[d]
            if dn["k"] == "call" and dn.get("member") and dn.get("callee", "").split("::")[-1] in ("acquire", "acquire_if_equal"):
                # g.acquire(src): the new value of g is a function of src, not of g
                for a_ in fn.kids(d)[1:]:
                    dep[nm] |= (_names_in(fn, a_) & set(defs))
                continue
            dep[nm] |= (_names_in(fn, d) & set(defs))
            # a restart idiom (start = &head: the cycle puts a constant / an address into the local that differs from what it held on entry) changes the
            # state in its first round, and whether the steady state re-enters the cycle rests on a data-structure invariant (the root is never
            # marked): nothing is claimed.  Re-reading shared memory into the local (seq = _seq.load()) is not a restart: the local holds "the
            # current shared value" in every round.
            if nm not in declared_on_cycle and not _reads_shared(fn, d):   # (a declaration on the cycle creates the variable afresh in every iteration)
                for o in outside.get(nm, ()):
                    if fn.expr(o) != fn.expr(d):
                        variant.add(nm)
    for nm in list(defs):
        base = nm.split(".")[0]
        for other in defs:
            if other != nm and other.split(".")[0] == base and (other == base or nm == base):
                dep[nm].add(other)

    # a local that (transitively) depends on itself advances; everything that depends on a variant local is variant
    def reaches_self(a):
        seen = set()
        st = list(dep.get(a, ()))
        while st:
            y = st.pop()
            if y == a:
                return True
            if y in seen:
                continue
            seen.add(y)
            st.extend(dep.get(y, ()))
        return False
    for nm in defs:
        if reaches_self(nm):
            variant.add(nm)
    changed = True
    while changed:
        changed = False
        for nm in defs:
            if nm not in variant and dep[nm] & variant:
                variant.add(nm)
                changed = True
    return set(defs), variant


def _reads_shared(fn, nid):
    """the expression contains an atomic load / a guard acquisition (its value is 'what shared memory holds now')"""
    for x in fn.subtree(nid):
        n = fn.nodes[x]
        if n["k"] == "call":
            a = fn.atomic(x)
            if a and a["kind"] == "load":
                return True
            if n.get("callee", "").split("::")[-1] in ("acquire", "acquire_if_equal", "acquire_guard"):
                return True
    return False


def fn_is_param(fn, nm):
    return "." not in nm and "@" not in nm and any(p["name"] == nm for p in fn.params)


def _cond_invariant(fn, cond, variant, purity):
    """the condition is a pure function of locals that keep their value from one solo iteration to the next, and of shared memory"""
    for x in fn.subtree(cond):
        n = fn.nodes[x]
        nm = _lname(fn, x)
        if nm and (nm in variant or nm.split(".")[0] in variant or any(v.startswith(nm + ".") for v in variant)):
            return False
        if n["k"] in ("call", "construct") and not fn.atomic(x):
            c = n.get("callee", "?")
            leaf = c.split("::")[-1]
            if c in QUIET_STD or leaf in CONST_MEMBER_LEAVES:
                continue
            if n["k"] == "construct" and not n.get("xen"):
                continue
            if not purity.facts.shapes(c) or not _pure_pattern(purity, c):
                return False
        if n["k"] in ("new", "delete", "throw", "lambda"):
            return False
    return True


def wait_loops(fn, purity):
    """SCCs of the sub-CFG made of quiet blocks that contain an atomic load and whose exits are not governed by a locally modified counter"""
    live = fn.live_blocks()
    quiet = set()
    loads = {}
    for b in live:
        ok = True
        has_load = False
        for e in fn.blocks[b]["elems"]:
            n = fn.nodes[e]
            if _writes_shared(fn, e):
                ok = False
                break
            a = fn.atomic(e)
            if a and a["kind"] == "load":
                has_load = True
                continue
            if n["k"] in ("call", "construct"):
                if a:
                    continue
                c = n.get("callee", "?")
                if n["k"] == "construct" and not n.get("xen"):
                    continue
                if not purity.quiet_pattern(c):
                    ok = False
                    break
                # calls that read shared state through a quiet callee (is_active(), empty(), is_locked()...) count as loads
                if n.get("xen") and n["k"] == "call":
                    for f2 in purity.facts.shapes(c)[:2]:
                        if any(x["kind"] == "load" for x in f2.atomics()):
                            has_load = True
            if n["k"] in ("new", "delete", "throw"):
                ok = False
                break
        if ok:
            quiet.add(b)
            loads[b] = has_load
    # SCCs (Tarjan) on quiet subgraph
    index = {}
    low = {}
    stack = []
    onstack = set()
    sccs = []
    counter = [0]

    def strong(v):
        index[v] = low[v] = counter[0]
        counter[0] += 1
        stack.append(v)
        onstack.add(v)
        for w in fn.blocks[v]["succ"]:
            if w is None or w not in quiet:
                continue
            if w not in index:
                strong(w)
                low[v] = min(low[v], low[w])
            elif w in onstack:
                low[v] = min(low[v], index[w])
        if low[v] == index[v]:
            comp = []
            while True:
                w = stack.pop()
                onstack.discard(w)
                comp.append(w)
                if w == v:
                    break
            sccs.append(comp)
    import sys
    sys.setrecursionlimit(10000)
    for v in sorted(quiet):
        if v not in index:
            strong(v)
    out = []
    for comp in sccs:
        cs = set(comp)
        cyclic = len(comp) > 1 or any(s in cs for s in fn.blocks[comp[0]]["succ"] if s is not None)
        if not cyclic:
            continue
        if not any(loads.get(b) for b in comp):
            continue
        # locals (and plain members) modified inside the component: counters that bound a cycle
        modified = set()
        for b in comp:
            for e in fn.blocks[b]["elems"]:
                n = fn.nodes[e]
                if n["k"] == "un" and n["op"] in ("++", "--"):
                    k = fn.kids(e)
                    if k and fn.nodes[k[0]]["k"] == "ref":
                        modified.add(fn.nodes[k[0]].get("name"))
                    elif k and fn.nodes[k[0]]["k"] == "member" and not fn.nodes[k[0]].get("t", "").startswith("std::atomic"):
                        modified.add("." + fn.nodes[k[0]].get("leaf"))
                if n["k"] == "bin" and n["op"] in ("+=", "-="):
                    k = fn.kids(e)
                    if k and fn.nodes[k[0]]["k"] == "ref" and fn.nodes[k[0]].get("dk") == "local":
                        modified.add(fn.nodes[k[0]].get("name"))
        # enumerate the elementary cycles of the component (bounded) and classify each by the outcomes of the conditions taken along it
        cycles = _simple_cycles(fn, cs, limit=400)
        if cycles is None:
            continue  # too many paths: not classified (listed as such in the evidence by the caller)
        for cyc in cycles:
            if _short_circuit_infeasible(fn, cyc):
                continue
            kinds = []
            has_load = any(loads.get(b) for b in cyc)
            # counters modified ALONG THIS CYCLE (an increment elsewhere in the component does not bound this cycle)
            modified = set()
            for b in cyc:
                for e in fn.blocks[b]["elems"]:
                    n = fn.nodes[e]
                    if n["k"] == "un" and n["op"] in ("++", "--"):
                        k = fn.kids(e)
                        if k and fn.nodes[k[0]]["k"] == "ref":
                            modified.add(fn.nodes[k[0]].get("name"))
                        elif k and fn.nodes[k[0]]["k"] == "member" and not fn.nodes[k[0]].get("t", "").startswith("std::atomic"):
                            modified.add("." + fn.nodes[k[0]].get("leaf"))
                    if n["k"] == "bin" and n["op"] in ("+=", "-="):
                        k = fn.kids(e)
                        if k and fn.nodes[k[0]]["k"] == "ref" and fn.nodes[k[0]].get("dk") == "local":
                            modified.add(fn.nodes[k[0]].get("name"))
            cyc_locals = None
            for i_, b in enumerate(cyc):
                nxt = cyc[(i_ + 1) % len(cyc)]
                blk = fn.blocks[b]
                if "cond" not in blk or len(blk["succ"]) != 2:
                    continue
                if blk["succ"][0] == blk["succ"][1]:
                    continue
                outcome = (blk["succ"][0] == nxt)   # condition was true on this cycle edge
                kd = _edge_kind(fn, blk["cond"], outcome, modified)
                if kd in ("unknown", "constant-test", "unchanged"):
                    if cyc_locals is None:
                        cyc_locals = _cycle_locals(fn, cyc, purity)
                    if kd == "unknown":
                        # a condition that is a pure function of values that do not change from one solo iteration to the next comes out the same
                        # way every time: the cycle, once entered, is left only if another thread writes
                        kd = "invariant" if _cond_invariant(fn, blk["cond"], cyc_locals[1], purity) else "unknown"
                    elif not _cond_invariant(fn, blk["cond"], cyc_locals[1], purity):
                        kd = "unknown"   # the tested local advances along the cycle (list walk): not a wait
                kinds.append(kd)
            if not has_load or not kinds:
                continue
            if "bounded" in kinds or "changed" in kinds or "unknown" in kinds:
                continue   # bounded by a counter, or repeated only because another thread changed something (lock-free retry), or not classifiable
            if "constant-test" in kinds or "unchanged" in kinds or "invariant" in kinds:
                lines = sorted({fn.nodes[e].get("l", 0) for b in cyc for e in fn.blocks[b]["elems"] if fn.nodes[e].get("l")})
                conds = [fn.expr(fn.blocks[b]["cond"])[:60] for b in cyc if "cond" in fn.blocks[b]]
                out.append({"blocks": sorted(cyc), "lines": (lines[0], lines[-1]) if lines else (0, 0), "conds": conds})
                break
    return out


def _short_circuit_infeasible(fn, cyc):
    """the CFG joins the operands of `a && b` / `a || b` in a block that branches on the whole expression; a path that reaches the join directly from
    `a` (short circuit: a was false for &&, true for ||) can only leave it on the matching side"""
    for i_, b in enumerate(cyc):
        blk = fn.blocks[b]
        if "cond" not in blk or len(blk["succ"]) != 2:
            continue
        cn = fn.nodes[blk["cond"]]
        if cn["k"] != "bin" or cn.get("op") not in ("&&", "||"):
            continue
        p = cyc[i_ - 1]
        pb = fn.blocks[p]
        if "cond" not in pb or len(pb["succ"]) != 2 or pb["succ"][0] == pb["succ"][1]:
            continue
        left = fn.kids(blk["cond"])[0] if fn.kids(blk["cond"]) else None
        if left is None or not (pb["cond"] == left or pb["cond"] in fn.subtree(left) or left in fn.subtree(pb["cond"])):
            continue
        took_true = pb["succ"][0] == b
        nxt = cyc[(i_ + 1) % len(cyc)]
        if cn["op"] == "&&" and not took_true and nxt != blk["succ"][1]:
            return True
        if cn["op"] == "||" and took_true and nxt != blk["succ"][0]:
            return True
    return False


def _simple_cycles(fn, comp, limit=400):
    """elementary cycles inside a strongly connected block set (DFS from the smallest block id; bounded)"""
    comp = set(comp)
    cycles = []
    order = sorted(comp)
    for start in order:
        stack = [(start, [start])]
        allowed = {b for b in comp if b >= start}
        while stack:
            b, path = stack.pop()
            for s_ in fn.blocks[b]["succ"]:
                if s_ is None or s_ not in allowed:
                    continue
                if s_ == start:
                    cycles.append(list(path))
                    if len(cycles) > limit:
                        return None
                elif s_ not in path:
                    stack.append((s_, path + [s_]))
    return cycles


def _edge_kind(fn, cond, outcome, modified):
    """what does taking this outcome of the condition say about progress?
    'bounded'       the condition involves a counter that is modified inside the loop
    'changed'       a comparison of two (re)loaded values came out 'different' - the loop repeats only because another thread changed something
    'unchanged'     such a comparison came out 'equal' (nothing changed, yet the loop continues)
    'constant-test' a test of one loaded value against constants (lock bit, flag, pending bit, emptiness)
    'unknown'       anything else"""
    atom, pol = flow.strip_cond(fn, cond)
    if atom is None or atom < 0:
        return "unknown"
    truth = outcome == pol  # truth value of the atom on this edge
    names = {fn.nodes[x].get("name") for x in fn.subtree(cond) if fn.nodes[x]["k"] == "ref"}
    names |= {"." + fn.nodes[x].get("leaf") for x in fn.subtree(cond) if fn.nodes[x]["k"] == "member"}
    if names & modified:
        return "bounded"
    n = fn.nodes[atom]
    c = fn.kids(atom)
    is_cmp = (n["k"] == "bin" and n.get("op") in ("==", "!=")) or (n["k"] == "call" and n.get("callee", "").split("::")[-1] in ("operator==", "operator!="))
    if is_cmp and len(c) == 2:
        nonconst = [x for x in c if not ("v" in fn.nodes[x] or fn.nodes[x]["k"] in ("lit", "null"))]
        if len(nonconst) == 2 and all(any(t.startswith("load:") for t in flow.srcs(fn, x)) for x in nonconst):
            op = n.get("op") or ("==" if n["callee"].endswith("==") else "!=")
            differ = truth if op == "!=" else (not truth)
            return "changed" if differ else "unchanged"
    if _constant_test(fn, cond):
        return "constant-test"
    return "unknown"


def _constant_test(fn, cond):
    """is the condition a test of ONE loaded value against constants (predicate method without further loaded operands, comparison with a literal,
    mask test)?"""
    atom, pol = flow.strip_cond(fn, cond)
    if atom is None or atom < 0:
        return False
    n = fn.nodes[atom]
    operands = []
    if n["k"] == "bin" and n["op"] in ("==", "!=", "<", ">", "<=", ">=", "&"):
        operands = fn.kids(atom)
    elif n["k"] == "call":
        operands = fn.kids(atom)
    elif n["k"] in ("ref", "member"):
        operands = [atom]
    else:
        return False
    nonconst = 0
    for o in operands:
        on = fn.nodes[o]
        if "v" in on or on["k"] in ("lit", "null"):
            continue
        if on["k"] == "this":
            continue
        nonconst += 1
    return nonconst <= 1


LOCK_CALLS = ("std::mutex::lock", "std::lock_guard::lock_guard", "std::unique_lock::unique_lock", "std::condition_variable::wait")


def rules(ctx, expected_floor=8):
    rid = "K11.no-wait-in-lock-free"
    ctx.rule(rid, "no wait construct (a CFG cycle that only reads shared state and whose exit depends on another thread's write, a mutex acquisition, "
                  "a yield loop) is reachable in the resolved call graph from an operation documented lock-free / wait-free")
    facts = ctx.facts
    purity = Purity(facts)
    W = {}   # pattern -> list of descriptions
    for fn in facts.fns:
        ws = []
        for b, i, e, n in fn.events():
            if n["k"] in ("call", "construct") and n.get("callee") in LOCK_CALLS:
                ws.append("acquires a mutex (%s) at line %d" % (n["callee"], n.get("l", 0)))
        for w in wait_loops(fn, purity):
            ws.append("wait loop lines %d-%d on %s" % (w["lines"][0], w["lines"][1], "; ".join(w["conds"]) or "unconditional re-read"))
        if ws:
            W.setdefault(fn.pat, {})[id(fn)] = (fn, ws)
    ctx.note("wait constructs detected: " + "; ".join("%s [%s]" % (p.replace("xenium::", ""), next(iter(d.values()))[1][0]) for p, d in sorted(W.items())))
    if len(W) < expected_floor:
        ctx.broken.append("K11: only %d functions with wait constructs detected, floor %d (detector broken?)" % (len(W), expected_floor))
    # L: documented lock-free / wait-free operations
    L = []
    for fn in facts.fns:
        m = re.search(r"Progress guarantees:\s*([^\n*]+)", fn.doc or "")
        if not m:
            continue
        g = m.group(1).strip()
        if g.startswith("lock-free") or g.startswith("wait-free"):
            if "if slots > 1" in g:
                if any(("slots<" in i and "slots<1>" not in i) for i in fn.insts):
                    L.append((fn, g))
            else:
                L.append((fn, g))
    # plus: guard_ptr members of every reclaimer, left_right::read
    for fn in facts.fns:
        if re.match(r"^xenium::reclamation::[a-z_]+::guard_ptr::(acquire|acquire_if_equal|reset|reclaim|guard_ptr|operator=)$", fn.pat):
            L.append((fn, "guard operation (documented lock-free by the reclaimer interface)"))
    if len(L) < 30:
        ctx.broken.append("K11: only %d lock-free operations found in doc comments" % len(L))
    # call graph closure per entry shape
    memo = {}
    expanded = {x["callee"] for x in getattr(facts, "inline_report", {}).get("expanded", [])}

    def reach(pat, depth=0):
        """set of W patterns reachable from pattern (over all shapes of callees), with one witness chain"""
        if pat in memo:
            return memo[pat]
        memo[pat] = {}
        res = {}
        if pat in W:
            res[pat] = [pat]
        for fn in facts.shapes(pat)[:8]:
            for b, i, e, n in fn.events():
                c = None
                if n["k"] in ("call", "construct") and n.get("xen") and not n.get("inlined"):
                    c = n.get("callee")
                elif n["k"] == "lambda" and n.get("fn") not in expanded:
                    c = n.get("fn")
                elif n["k"] in ("call", "construct") and n.get("callee") in LOCK_CALLS:
                    pass
                if c and depth < 12:
                    for w, chain in reach(c, depth + 1).items():
                        res.setdefault(w, [pat] + chain)
        memo[pat] = res
        return res
    seen_inst = set()
    for fn, g in L:
        inst = "%s[%s]" % (fn.pat, g.split("(")[0].strip()[:20])
        hits = {}
        # own body (shape specific)
        if fn.pat in W and id(fn) in W[fn.pat]:
            hits[fn.pat] = [fn.pat]
        for b, i, e, n in fn.events():
            c = None
            if n["k"] in ("call", "construct") and n.get("xen") and not n.get("inlined"):
                c = n.get("callee")      # (a virtually inlined helper is part of this body: its loops were classified with the caller's shape)
            elif n["k"] == "lambda" and n.get("fn") not in expanded:
                c = n.get("fn")
            if c:
                for w, chain in reach(c).items():
                    hits.setdefault(w, [fn.pat] + chain)
        if hits:
            w, chain = sorted(hits.items())[0]
            desc = next(iter(W[w].values()))[1][0]
            ctx.bad(rid, inst, "%s is documented '%s' but reaches a wait construct: %s (%s)" % (fn.pat, g, " -> ".join(c.replace("xenium::", "") for c in chain), desc),
                    fn.where(), fn=fn)
        else:
            ctx.ok(rid, inst, "no wait construct reachable", fn.where(), nontrivial=(inst not in seen_inst), fn=fn)
        seen_inst.add(inst)
    return W
