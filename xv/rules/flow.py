"""Generic CFG helpers for path rules (K2 order, K4 guarded action).

Matchers are small dicts evaluated on a node:
  {"k": "call", "callee": "<suffix>", "callee_re": "...", "field": "<suffix of designated field>", "op": "<atomic op>",
   "kind": "load|store|cas|rmw|fence", "mo": "<order>", "expr_re": "<regex on the normalised expression>", "name": ..}
"""
import re


def node_matches(fn, nid, m):
    n = fn.nodes[nid]
    k = m.get("k")
    if k and n["k"] != k and not (k == "call" and n["k"] == "construct" and m.get("allow_construct")):
        return False
    if "callee" in m:
        c = n.get("callee", "")
        cs = m["callee"] if isinstance(m["callee"], (list, tuple)) else [m["callee"]]
        if not any(c == x or c.endswith("::" + x) for x in cs):
            return False
    if "callee_re" in m and not re.search(m["callee_re"], n.get("callee", "")):
        return False
    if "name" in m:
        nm = n.get("name", "")
        if not (nm == m["name"] or nm.endswith("::" + m["name"])):
            return False
    if "atomic" in m or "field" in m or "op" in m or "kind" in m:
        a = fn.atomic(nid)
        if a is None:
            if "field" in m and n["k"] in ("call", "construct") and not m.get("atomic"):
                # non-atomic call: compare against designated object / first args
                fs = [fn.field_of(c) for c in fn.kids(nid)]
                if not any(f == m["field"] or f.endswith("::" + m["field"]) or f.endswith(m["field"]) for f in fs):
                    return False
                if "op" in m or "kind" in m:
                    return False
            else:
                return False
        else:
            if "field" in m and not (a["field"] == m["field"] or a["field"].endswith("::" + m["field"]) or a["field"].endswith(m["field"])):
                return False
            if "op" in m:
                ops = m["op"] if isinstance(m["op"], (list, tuple)) else [m["op"]]
                if a["op"] not in ops:
                    return False
            if "kind" in m:
                ks = m["kind"] if isinstance(m["kind"], (list, tuple)) else [m["kind"]]
                if a["kind"] not in ks:
                    return False
    if "expr_re" in m and not re.search(m["expr_re"], fn.expr(nid)):
        return False
    if "pred" in m and not m["pred"](fn, nid):
        return False
    return True


def find(fn, m, live_only=True):
    """node ids of CFG events matching m, in event order"""
    return [e for b, i, e, n in fn.events(live_only) if node_matches(fn, e, m)]


def strip_cond(fn, nid, follow=True):
    a, p, r = strip_cond2(fn, nid, follow)
    return a, p


def strip_cond2(fn, nid, follow=True):
    """look through !, bool casts, __builtin_expect, comparisons with true/false/0; returns (atom id, polarity, restrict) where restrict says
    which outcome of the ORIGINAL condition determines the atom: for `a || b` the block that carries the whole condition may be entered from the
    short-circuit edge, so only its false edge determines b (b false); for `a && b` only its true edge does (b true)."""
    pol = True
    restrict = None
    seen = 0
    while nid is not None and nid >= 0 and seen < 20:
        seen += 1
        n = fn.nodes[nid]
        k = n["k"]
        c = fn.kids(nid)
        if k == "un" and n["op"] == "!":
            pol = not pol
            nid = c[0]
            continue
        if k == "call" and n.get("callee", "").endswith("__builtin_expect") and c:
            nid = c[0]
            continue
        if k == "cast" and c:
            nid = c[0]
            continue
        if k == "bin" and n["op"] in ("&&", "||") and len(c) == 2:
            # the block that carries this terminator condition evaluates the right operand; the left one was
            # decided (and branched on) in an earlier block
            r = ("false" if n["op"] == "||" else "true")
            if not pol:
                r = "true" if r == "false" else "false"
            restrict = r if restrict in (None, r) else "none"
            nid = c[1]
            continue
        if k == "bin" and n["op"] in ("==", "!=") and len(c) == 2:
            l, r = fn.nodes[c[0]], fn.nodes[c[1]]
            for a, b in ((c[0], r), (c[1], l)):
                if b["k"] in ("lit",) and b.get("v") in (0, 1) and b.get("t") in ("bool", "int") and fn.nodes[a].get("t") == "bool":
                    v = bool(b.get("v"))
                    same = (n["op"] == "==") == v
                    if not same:
                        pol = not pol
                    nid = a
                    break
            else:
                break
            continue
        if k == "ref" and n.get("dk") == "local" and follow:
            d = unique_def(fn, n["name"])
            if d is not None:
                nid = d
                continue
        if k == "call" and n.get("inl_ret_var") and follow:
            # the value of a virtually inlined helper is what it returns
            d = unique_def(fn, n["inl_ret_var"])
            if d is not None:
                nid = d
                continue
        break
    return nid, pol, restrict


_defs_cache = {}


def local_defs(fn, name, vid=None):
    """all definitions (decl init / assignment rhs node ids, or None for unknown writes) of a local variable; with vid, only those of that
    very variable (two locals of the same name in different scopes are numbered apart by the plugin)"""
    key = (id(fn), name, vid)
    if key in _defs_cache:
        return _defs_cache[key]

    def same(n_):
        return vid is None or n_.get("vid") is None or n_.get("vid") == vid
    defs = []
    for b, i, e, n in fn.events(live_only=True):
        if n["k"] == "decl":
            for v in n["vars"]:
                if v["name"] == name and "init" in v and same(v):
                    defs.append(v.get("init"))
        elif n["k"] == "bin" and n["op"].endswith("=") and n["op"] not in ("==", "!=", "<=", ">="):
            c = fn.kids(e)
            if c and fn.nodes[c[0]]["k"] == "ref" and fn.nodes[c[0]].get("name") == name and fn.nodes[c[0]].get("dk") == "local" and same(fn.nodes[c[0]]):
                defs.append(c[1] if n["op"] == "=" else None)
        elif n["k"] == "call" and n.get("callee", "").endswith("operator=") and n.get("member"):
            c = fn.kids(e)
            if c and fn.nodes[c[0]]["k"] == "ref" and fn.nodes[c[0]].get("name") == name and fn.nodes[c[0]].get("dk") == "local" and same(fn.nodes[c[0]]):
                defs.append(c[1] if len(c) > 1 else None)
        elif n["k"] == "un" and n["op"] in ("++", "--"):
            c = fn.kids(e)
            if c and fn.nodes[c[0]]["k"] == "ref" and fn.nodes[c[0]].get("name") == name and same(fn.nodes[c[0]]):
                defs.append(None)
        elif n["k"] == "un" and n["op"] == "&":
            c = fn.kids(e)
            if c and fn.nodes[c[0]]["k"] == "ref" and fn.nodes[c[0]].get("name") == name and fn.nodes[c[0]].get("dk") == "local" and same(fn.nodes[c[0]]):
                defs.append(None)  # address taken
    _defs_cache[key] = defs
    return defs


def unique_def(fn, name):
    d = local_defs(fn, name)
    if len(d) == 1 and d[0] is not None:
        return d[0]
    return None


def cond_edges(fn, atom_pred):
    """for every conditional block whose (stripped) condition is an atom accepted by atom_pred:
    yields (block, atom id, true_succ, false_succ) with polarity applied (true_succ = successor when the atom is true)"""
    out = []
    for b, blk in fn.blocks.items():
        if "cond" not in blk or len(blk["succ"]) != 2:
            continue
        atom, pol, restrict = strip_cond2(fn, blk["cond"])
        if atom is None or atom < 0:
            continue
        if atom_pred(fn, atom):
            t, f = blk["succ"][0], blk["succ"][1]
            # restrict refers to the outcome of the original condition
            if restrict == "true":
                f = None
            elif restrict == "false":
                t = None
            elif restrict == "none":
                t = f = None
            if not pol:
                t, f = f, t
            out.append((b, atom, t, f))
    return out


def eq_cmp(fn, nid):
    """(op, lhs, rhs) with op in ('==', '!=') for a built-in or overloaded (in)equality comparison, else None"""
    n = fn.nodes[nid]
    c = fn.kids(nid)
    if n["k"] == "bin" and n["op"] in ("==", "!=") and len(c) == 2:
        return n["op"], c[0], c[1]
    if n["k"] == "call":
        leaf = n.get("callee", "").split("::")[-1]
        if leaf in ("operator==", "operator!=") and len(c) >= 2:
            return leaf[len("operator"):], c[-2], c[-1]
    return None


def equal_want(side_pred):
    """want function for licensed_edges / only_via_want: an (in)equality comparison whose two sides both satisfy side_pred(fn, nid) must
    come out as 'equal' ('==' true or '!=' false) - independent of which of the two operators the code uses"""
    def want(fn, nid):
        c = eq_cmp(fn, nid)
        if c is None or not (side_pred(fn, c[1]) and side_pred(fn, c[2])):
            return None
        return c[0] == "=="
    return want


def def_event_pos(fn, name):
    """(block, index) of the declaration / assignment event that defines a single-definition local"""
    for b, i, e, n in fn.events():
        if n["k"] == "decl" and any(v["name"] == name and "init" in v for v in n["vars"]):
            return b, i
        if n["k"] == "bin" and n["op"] == "=" and fn.kids(e) and fn.nodes[fn.kids(e)[0]]["k"] == "ref" and fn.nodes[fn.kids(e)[0]].get("name") == name:
            return b, i
    return None



def const_value(fn, nid):
    """integer value of a constant expression (through casts), 0 for null pointer constants, else None"""
    for _ in range(6):
        n = fn.nodes[nid]
        if n["k"] == "null":
            return 0
        if n["k"] == "lit" and isinstance(n.get("v"), int):
            return n["v"]
        if n["k"] == "cast" and fn.kids(nid):
            nid = fn.kids(nid)[0]
            continue
        if isinstance(n.get("v"), int) and n["k"] in ("ref", "member"):
            return n["v"]
        if n["k"] == "construct" and fn.kids(nid):
            # a value-initialised / all-null wrapper such as marked_ptr{nullptr, 0}
            if all(const_value(fn, x) == 0 for x in fn.kids(nid)):
                return 0
        break
    return None


def value_only_from(fn, nid, targets, falsy_ok=True, depth=0):
    """the (boolean) value of expression nid is the result of one of the target events whenever it is true: nid is a target, a cast of one, or a
    local all of whose definitions are targets or constant false"""
    if depth > 4:
        return False
    n = fn.nodes[nid]
    if nid in targets:
        return True
    if n["k"] == "cast" and fn.kids(nid):
        return value_only_from(fn, fn.kids(nid)[0], targets, falsy_ok, depth + 1)
    if n["k"] == "ref" and n.get("dk") == "local":
        ds = local_defs(fn, n["name"])
        if not ds or any(d is None for d in ds):
            return False
        return all((falsy_ok and const_value(fn, d) == 0) or value_only_from(fn, d, targets, falsy_ok, depth + 1) for d in ds)
    return False


def cmp_want(pred_a, pred_b):
    """want function: an (in)equality comparison between something satisfying pred_a and something satisfying pred_b (either order) must come
    out as 'equal' - '==' true or '!=' false, whichever operator the code uses"""
    def want(fn, nid):
        c = eq_cmp(fn, nid)
        if c is None:
            return None
        if (pred_a(fn, c[1]) and pred_b(fn, c[2])) or (pred_a(fn, c[2]) and pred_b(fn, c[1])):
            return c[0] == "=="
        return None
    return want


def const_is(v):
    return lambda fn, nid: const_value(fn, nid) == v


def null_want(side_pred):
    """want function: the value described by side_pred is null / zero / false.  Accepts `x == nullptr`, `x != nullptr`, `x == 0`, plain
    truthiness `if (x)` / `while (x)` and their negations (strip_cond removes the negations)"""
    cw = cmp_want(side_pred, const_is(0))

    def want(fn, nid):
        w = cw(fn, nid)
        if w is not None:
            return w
        if eq_cmp(fn, nid) is None and fn.nodes[nid]["k"] in ("ref", "member", "call", "cast", "un") and side_pred(fn, nid):
            return False   # the atom itself is the value: it is null when the atom is false
        return None
    return want


def negate_want(w):
    def want(fn, nid):
        r = w(fn, nid)
        return None if r is None else (not r)
    return want


def only_via(fn, action_nid, atom_pred, polarity=True, relicense=True):
    """K4: is `action` control dependent on atom being `polarity`?  i.e. every path from entry to the action, and (relicense) every
    path from the action back to itself, takes an edge that is only taken when a matching atom has that truth value.
    Returns (ok, offending_path_blocks, n_atoms)"""
    return only_via_want(fn, action_nid, lambda f, a: polarity if atom_pred(f, a) else None, relicense)


def only_via_want(fn, action_nid, want_fn, relicense=True):
    """like only_via, but the wanted truth value is given per atom (want_fn(fn, atom) -> True / False / None)"""
    finfo = {}
    removed, n_atoms = licensed_edges(fn, want_fn, finfo)
    pos = fn.pos().get(action_nid)
    if pos is None:
        return True, [], n_atoms
    target = pos[0]
    path = _path(fn, fn.entry, target, removed)
    if path is not None:
        return False, path, n_atoms
    if not relicense:
        return True, [], n_atoms
    # a cycle through the action must re-evaluate the atom: a flag edge alone does not re-license (the flag may be stale), the cycle must
    # also pass a block that re-defines the flag from the atom
    direct = removed - finfo.get("edges", set())
    blocked = finfo.get("def_blocks", set())
    if target in blocked:
        return True, [], n_atoms
    for s in fn.blocks[target]["succ"]:
        if s is None or (target, s) in direct:
            continue
        p = _path(fn, s, target, direct, blocked)
        if p is not None:
            return False, [target] + p, n_atoms
    return True, [], n_atoms


def _path(fn, src, dst, removed_edges, blocked=()):
    if src == dst:
        return [src]
    if src in blocked:
        return None
    prev = {src: None}
    q = [src]
    while q:
        x = q.pop(0)
        for s in fn.blocks[x]["succ"]:
            if s is None or (x, s) in removed_edges or s in prev or (s in blocked and s != dst):
                continue
            prev[s] = x
            if s == dst:
                p = [s]
                while prev[p[-1]] is not None:
                    p.append(prev[p[-1]])
                return list(reversed(p))
            q.append(s)
    return None


def describe_path(fn, blocks):
    out = []
    for b in blocks:
        blk = fn.blocks[b]
        lines = [fn.nodes[e].get("l", 0) for e in blk["elems"] if fn.nodes[e].get("l")]
        out.append({"block": b, "lines": [min(lines), max(lines)] if lines else [], "term": blk.get("term")})
    return out


def never_before(fn, a, b):
    """no execution evaluates event a and later event b? -> returns True if b is NOT reachable after a"""
    return not fn.event_reaches(a, b)


def always_after(fn, a, b_list, exits_ok=True):
    """K2: every path from event a to the function exit passes one of the events in b_list.
    Implemented by removing the blocks/positions of b and testing whether exit is reachable from a."""
    pos = fn.pos()
    pa = pos.get(a)
    if pa is None:
        return True, []
    bpos = [pos[b] for b in b_list if b in pos]
    # same block, later index
    for pb in bpos:
        if pb[0] == pa[0] and pb[1] > pa[1]:
            return True, []
    blocked = {pb[0] for pb in bpos}
    # walk from successors of a's block
    prev = {}
    q = []
    for s in fn.blocks[pa[0]]["succ"]:
        if s is not None and s not in blocked and s not in prev:
            prev[s] = None
            q.append(s)
    while q:
        x = q.pop(0)
        if x == fn.exit:
            p = [x]
            while prev[p[-1]] is not None:
                p.append(prev[p[-1]])
            return False, [pa[0]] + list(reversed(p))
        for s in fn.blocks[x]["succ"]:
            if s is None or s in blocked or s in prev:
                continue
            prev[s] = x
            q.append(s)
    return True, []


# ------------------------------------------------------------------------------------------------------------------
# table-driven rule helpers


def _shapes(ctx, pat, variants=None, inst_re=None):
    from ..facts import AnalysisBroken
    shapes = ctx.facts.shapes(pat)
    if not shapes:
        merged = ctx.facts.merged_into(pat)
        if merged:
            # the helper this rule is anchored in was inlined into its (former) callers: the rule is evaluated there
            note = "%s no longer exists; its rules are evaluated in its former callers (%s)" % (pat, ", ".join(sorted({f.pat for f in merged}))[:200])
            if note not in ctx.notes:
                ctx.notes.append(note)
            shapes = merged
    if not shapes:
        # recorded, not raised: if the same run finds a real violation (e.g. the call to this function was removed) that is
        # the verdict; with no violation the run ends analysis-broken (exit 2)
        ctx.broken.append("anchor vanished: function %s is not instantiated" % pat)
        return []
    if variants:
        shapes = [f for f in shapes if f.variants & set(variants)]
    if inst_re:
        shapes = [f for f in shapes if any(re.search(inst_re, i) for i in f.insts)]
    return shapes


def mdesc(m):
    if "desc" in m:
        return m["desc"]
    parts = []
    for k in ("callee", "op", "kind", "field", "name", "k", "expr_re"):
        if k in m:
            parts.append("%s=%s" % (k, m[k]))
    return "{" + ",".join(parts) + "}"


def chain(ctx, rid, pat, steps, why="", variants=None, inst_re=None, mode="dom", label=None, optional_first=False):
    """K2: the events matched by consecutive steps occur in this order on every path.
    mode 'dom': every event of step i+1 is dominated by an event of step i.
    mode 'post': every event of step i is followed, on every path to the function exit, by an event of step i+1.
    A step without any matching event is a violation (the required operation was removed)."""
    inst_label = label or "->".join(mdesc(m) for m in steps)
    # a step that is a call of a helper that was inlined away (known on the tree the rules were written for, gone now) is transparent:
    # the helper's own rules are evaluated in the caller (see _shapes)
    steps = [m for m in steps if not _is_vanished_call(ctx, m, pat)]
    if len(steps) < 2 and len(steps) < len(inst_label.split("->")):
        for fn in _shapes(ctx, pat, variants, inst_re):
            ctx.ok(rid, "%s#%s" % (pat, inst_label), "ordering step refers to a helper that was inlined into this function", fn.where(), nontrivial=False, fn=fn)
        return
    for fn in _shapes(ctx, pat, variants, inst_re):
        evs = [find(fn, m) for m in steps]
        inst0 = "%s#%s" % (pat, inst_label)
        missing = [mdesc(steps[i]) for i, e in enumerate(evs) if not e]
        if missing:
            if optional_first and not evs[0]:
                ctx.ok(rid, inst0, "not applicable in this instantiation (no %s)" % mdesc(steps[0]), fn.where(), nontrivial=False, fn=fn)
                continue
            ctx.bad(rid, inst0, "%s: required event(s) %s not found in %s. %s" % (rid, ", ".join(missing), pat, why), fn.where(), fn=fn)
            continue
        good = True
        for i in range(len(steps) - 1):
            mode_i = steps[i + 1].get("rel", mode)
            if mode_i == "dom":
                if steps[i + 1].get("any"):
                    sel = [b for b in evs[i + 1] if any(fn.before(a, b) for a in evs[i])]
                    if not sel:
                        good = False
                        ctx.bad(rid, inst0, "no %s is preceded on every path by %s. %s" % (mdesc(steps[i + 1]), mdesc(steps[i]), why), fn.where(evs[i + 1][0]), fn=fn)
                        break
                    evs[i + 1] = sel
                    continue
                for b in evs[i + 1]:
                    if not any(fn.before(a, b) for a in evs[i]):
                        good = False
                        ctx.bad(rid, inst0, "%s at line %d is not preceded on every path by %s. %s" % (
                            fn.expr(b)[:80], fn.nodes[b].get("l", 0), mdesc(steps[i]), why), fn.where(b), fn=fn)
                        break
            elif mode_i == "nobefore":
                # no event of step i can execute after an event of step i+1
                for b in evs[i + 1]:
                    for a in evs[i]:
                        if fn.event_reaches(b, a):
                            good = False
                            ctx.bad(rid, inst0, "%s at line %d can execute after %s at line %d. %s" % (
                                fn.expr(a)[:60], fn.nodes[a].get("l", 0), mdesc(steps[i + 1]), fn.nodes[b].get("l", 0), why), fn.where(a), fn=fn)
                            break
                    if not good:
                        break
            else:
                for a in evs[i]:
                    ok, path = always_after(fn, a, evs[i + 1])
                    if not ok:
                        good = False
                        ctx.bad(rid, inst0, "after %s at line %d there is a path to the function exit that does not pass %s. %s" % (
                            fn.expr(a)[:80], fn.nodes[a].get("l", 0), mdesc(steps[i + 1]), why), fn.where(a), path=describe_path(fn, path), fn=fn)
                        break
            if not good:
                break
        if good:
            ctx.ok(rid, inst0, "order holds: " + " < ".join("%s@L%d" % (mdesc(m), fn.nodes[e[0]].get("l", 0)) for m, e in zip(steps, evs)), fn.where(evs[0][0]), fn=fn)


def guarded(ctx, rid, pat, action, atom, polarity=True, why="", variants=None, inst_re=None, label=None, require_action=True):
    """K4: every event matching `action` is reachable only through the `polarity` edge of a condition on an atom matching `atom`."""
    for fn in _shapes(ctx, pat, variants, inst_re):
        acts = find(fn, action)
        inst0 = "%s#%s" % (pat, label or (mdesc(action) + "|" + mdesc(atom)))
        if not acts:
            if require_action:
                ctx.bad(rid, inst0, "required action %s not found in %s. %s" % (mdesc(action), pat, why), fn.where(), fn=fn)
            else:
                ctx.ok(rid, inst0, "no such action in this instantiation", fn.where(), nontrivial=False, fn=fn)
            continue
        pred = (lambda f, nid: node_matches(f, nid, atom))
        for a in acts:
            if "want" in atom:
                # semantic condition (want function): the operator / operand order / polarity the code uses does not matter
                ok, path, natoms = only_via_want(fn, a, atom["want"] if polarity else negate_want(atom["want"]))
            else:
                ok, path, natoms = only_via(fn, a, pred, polarity)
            if ok and natoms:
                ctx.ok(rid, inst0, "%s at line %d only reachable via the %s edge of %s" % (fn.expr(a)[:60], fn.nodes[a].get("l", 0), polarity, mdesc(atom)), fn.where(a), fn=fn)
            else:
                ctx.bad(rid, inst0, "%s at line %d is reachable without the %s edge of a condition on %s%s. %s" % (
                    fn.expr(a)[:80], fn.nodes[a].get("l", 0), "true" if polarity else "false", mdesc(atom),
                    " (no such condition exists)" if not natoms else "", why), fn.where(a), path=describe_path(fn, path), fn=fn)


def _is_vanished_call(ctx, m, pat=None):
    c = m.get("callee")
    if not (isinstance(c, str) and m.get("k") == "call" and "pred" not in m and "field" not in m):
        return False
    if pat and "::" in pat:
        # a member of the anchored function's own class (the usual case: a private helper)
        cand = pat.rsplit("::", 1)[0] + "::" + c.split("::")[-1]
        if cand in ctx.facts.known_patterns:
            return cand not in ctx.facts.by_pat
    return ctx.facts.vanished_callee(c)


def present(ctx, rid, pat, m, why="", variants=None, inst_re=None, label=None, minimum=1):
    for fn in _shapes(ctx, pat, variants, inst_re):
        evs = find(fn, m)
        inst0 = "%s#%s" % (pat, label or mdesc(m))
        if not evs and _is_vanished_call(ctx, m, pat):
            ctx.ok(rid, inst0, "the helper %s was inlined into its callers" % mdesc(m), fn.where(), nontrivial=False, fn=fn)
            continue
        ctx.check(len(evs) >= minimum, rid, inst0, "%d event(s) %s" % (len(evs), mdesc(m)),
                  "%s must contain %s (found %d, need %d). %s" % (pat, mdesc(m), len(evs), minimum, why), fn.where(), fn=fn)


def absent(ctx, rid, pat, m, why="", variants=None, inst_re=None, label=None):
    for fn in _shapes(ctx, pat, variants, inst_re):
        evs = find(fn, m)
        inst0 = "%s#%s" % (pat, label or ("no " + mdesc(m)))
        ctx.check(not evs, rid, inst0, "no event %s" % mdesc(m),
                  "%s must not contain %s (found at line %s). %s" % (pat, mdesc(m), ",".join(str(fn.nodes[e].get("l")) for e in evs), why),
                  fn.where(evs[0]) if evs else fn.where(), fn=fn)


def must_pass(fn, target_nid, via_events):
    """every path from the function entry to `target` executes one of via_events (checked by deleting them and testing reachability).
    Returns (ok, offending path)"""
    pos = fn.pos()
    pt = pos.get(target_nid)
    if pt is None:
        return True, []
    via = [pos[v] for v in via_events if v in pos]
    # same block, earlier index
    blocked_blocks = set()
    for pv in via:
        if pv[0] == pt[0] and pv[1] < pt[1]:
            return True, []
        if pv[0] != pt[0]:
            blocked_blocks.add(pv[0])
    if fn.entry in blocked_blocks:
        return True, []
    prev = {fn.entry: None}
    q = [fn.entry]
    while q:
        x = q.pop(0)
        if x == pt[0]:
            p = [x]
            while prev[p[-1]] is not None:
                p.append(prev[p[-1]])
            return False, list(reversed(p))
        for s_ in fn.blocks[x]["succ"]:
            if s_ is None or s_ in prev or s_ in blocked_blocks:
                continue
            prev[s_] = x
            q.append(s_)
    return True, []


def between_only_via(fn, a, b, atom_pol):
    """every path from event a to event b (a == b: every cycle through a) takes an edge that is only taken when some atom has the truth value
    atom_pol(fn, atom) asks for (True / False; None = not a licensing atom).  Returns (ok, path, n_atoms)."""
    removed, n = licensed_edges(fn, atom_pol)
    pos = fn.pos()
    pa, pb = pos.get(a), pos.get(b)
    if pa is None or pb is None:
        return True, [], n
    if pa[0] == pb[0] and pa[1] < pb[1]:
        return False, [pa[0]], n
    for s in fn.blocks[pa[0]]["succ"]:
        if s is None or (pa[0], s) in removed:
            continue
        p = _path(fn, s, pb[0], removed)
        if p is not None:
            return False, [pa[0]] + p, n
    return True, [], n


def _flatten_logical(fn, nid):
    """(op, [(atom, polarity)]) for a condition; op in (None, '&&', '||'); nested mixed operators give op 'mixed'"""
    pol = True
    cur = nid
    # peel negations / casts around a logical operator
    for _ in range(10):
        n = fn.nodes[cur]
        c = fn.kids(cur)
        if n["k"] == "un" and n["op"] == "!" and c:
            pol = not pol
            cur = c[0]
            continue
        if n["k"] == "cast" and c:
            cur = c[0]
            continue
        if n["k"] == "call" and n.get("callee", "").endswith("__builtin_expect") and c:
            cur = c[0]
            continue
        break
    n = fn.nodes[cur]
    if n["k"] == "bin" and n["op"] in ("&&", "||"):
        op = n["op"]
        if not pol:
            # De Morgan
            op = "||" if op == "&&" else "&&"
        leaves = []

        def rec(x, p, want_op):
            xn = fn.nodes[x]
            xc = fn.kids(x)
            if xn["k"] == "un" and xn["op"] == "!" and xc:
                return rec(xc[0], not p, want_op)
            if xn["k"] == "bin" and xn["op"] in ("&&", "||"):
                eff = xn["op"] if p else ("||" if xn["op"] == "&&" else "&&")
                if eff != want_op:
                    return False
                return rec(xc[0], p, want_op) and rec(xc[1], p, want_op)
            a, ap = strip_cond(fn, x)
            leaves.append((a, ap if p else not ap))
            return True
        c = fn.kids(cur)
        ok = rec(c[0], pol, op) and rec(c[1], pol, op)
        if not ok:
            return "mixed", []
        return op, leaves
    a, ap = strip_cond(fn, nid)
    return None, [(a, ap)]


def _const_bool(fn, nid):
    """True/False if the expression is a boolean/integer constant (through casts), else None"""
    for _ in range(6):
        n = fn.nodes[nid]
        if n["k"] == "lit" and n.get("v") in (0, 1):
            return bool(n["v"])
        if n["k"] == "cast" and fn.kids(nid):
            nid = fn.kids(nid)[0]
            continue
        if "v" in n and n.get("t") == "bool" and n["v"] in (0, 1) and n["k"] not in ("call", "bin", "un"):
            return bool(n["v"])
        break
    return None


def flag_license(fn, nid, want_fn, depth=0):
    """flag variables: `bool ok = false; ... ok = cas(...); ... if (ok) action;`.  For a condition leaf that is a reference to a local with
    several definitions, returns (lic_true, lic_false, def_blocks): lic_true says that the flag being true implies that some licensing atom
    had the wanted truth value - every definition of the flag is either a constant (false) that cannot make it true or the (possibly negated)
    atom itself; flow-insensitive over all definitions, any unknown write (compound assignment, address taken) disables it."""
    n = fn.nodes[nid]
    if depth > 3:
        return False, False, set()
    if n["k"] == "call" and n.get("inl_ret_var"):
        vname = n["inl_ret_var"]
    elif n["k"] == "ref" and n.get("dk") == "local":
        vname = n["name"]
    else:
        return False, False, set()
    defs = local_defs(fn, vname)
    if not defs or any(d is None for d in defs):
        return False, False, set()
    res = {True: True, False: True}
    blocks = set()
    n_lic = 0
    pos = fn.pos()
    for d in defs:
        cv = _const_bool(fn, d)
        if cv is not None:
            res[cv] = False
            continue
        op, leaves = _flatten_logical(fn, d)
        if op is not None or not leaves:
            return False, False, set()
        a2, p2 = leaves[0]
        if a2 is None or a2 < 0:
            return False, False, set()
        w2 = want_fn(fn, a2)
        if w2 is None:
            lt, lf, bl = flag_license(fn, a2, want_fn, depth + 1)
            if not (lt or lf):
                return False, False, set()
            # flag true <=> inner flag == p2
            res[True] = res[True] and (lt if p2 else lf)
            res[False] = res[False] and (lf if p2 else lt)
            blocks |= bl
            n_lic += 1
            continue
        n_lic += 1
        # flag == X  implies  atom == (p2 if X else not p2)
        res[True] = res[True] and (w2 == p2)
        res[False] = res[False] and (w2 == (not p2))
        pp = pos.get(a2)
        if pp is None:
            # the atom is a sub-expression of an event: find the enclosing event's block
            for b, i, e, nn in fn.events(live_only=True):
                if a2 in fn.subtree(e):
                    pp = (b, i)
                    break
        if pp is not None:
            blocks.add(pp[0])
    if n_lic == 0:
        return False, False, set()
    return res[True], res[False], blocks


def licensed_edges(fn, want_fn, flag_info=None):
    """set of CFG edges (block, successor) that are guaranteed to be taken only when some atom has the truth value want_fn(fn, atom) asks for.
    Short-circuit conditions are handled exactly: the block carrying `a || b` is left through its true edge when a OR b holds, so that edge is
    licensed only if every disjunct is a licensing atom (dually for &&).  A leaf that is a boolean flag variable holding the result of a
    licensing atom counts as that atom (flag_license); flag_info (dict) receives the flag-licensed edges and the blocks that (re)define the flags."""
    out = set()
    n_atoms = 0
    if flag_info is not None:
        flag_info.setdefault("edges", set())
        flag_info.setdefault("def_blocks", set())
    for b, blk in fn.blocks.items():
        if "cond" not in blk or len(blk["succ"]) != 2:
            continue
        op, leaves = _flatten_logical(fn, blk["cond"])
        if op == "mixed" or not leaves:
            continue
        wants = []
        for atom, pol in leaves:
            if atom is None or atom < 0:
                wants.append(None)
                continue
            w = want_fn(fn, atom)
            wants.append(w)
        if any(w is not None for w in wants):
            n_atoms += 1
        t, f = blk["succ"][0], blk["succ"][1]
        # leaf expression i is true  <=>  atom_i == pol_i
        lic_when_true = [w is not None and w == pol for (a, pol), w in zip(leaves, wants)]      # leaf-expr true implies wanted value
        lic_when_false = [w is not None and w == (not pol) for (a, pol), w in zip(leaves, wants)]  # leaf-expr false implies wanted value
        via_flag = False
        for i_, ((a, pol), w) in enumerate(zip(leaves, wants)):
            if w is None and a is not None and a >= 0:
                lt, lf, bl = flag_license(fn, a, want_fn)
                if lt or lf:
                    # leaf-expr true <=> flag == pol
                    lic_when_true[i_] = lt if pol else lf
                    lic_when_false[i_] = lf if pol else lt
                    via_flag = True
                    n_atoms += 1
                    if flag_info is not None:
                        flag_info["def_blocks"] |= bl
        before = set(out) if via_flag and flag_info is not None else None
        if op is None:
            if lic_when_true[0] and t is not None:
                out.add((b, t))
            if lic_when_false[0] and f is not None:
                out.add((b, f))
        elif op == "||":
            if all(lic_when_true) and t is not None:
                out.add((b, t))
            if any(lic_when_false) and f is not None:
                out.add((b, f))
        elif op == "&&":
            if any(lic_when_true) and t is not None:
                out.add((b, t))
            if all(lic_when_false) and f is not None:
                out.add((b, f))
        if before is not None:
            flag_info["edges"] |= (out - before)
    return out, n_atoms


# ------------------------------------------------------------------------------------------------------------------
# name-independent description of expressions: where do the values come from?

def all_defs(fn, name, vid=None):
    """definitions of a local incl. guard acquisitions: list of node ids (rhs of decl/assignment, or the acquiring call itself)"""
    key = ("alldefs", id(fn), name, vid)
    if key in _defs_cache:
        return _defs_cache[key]
    out = [d for d in local_defs(fn, name, vid) if d is not None]
    for b, i, e, n in fn.events(live_only=True):
        if n["k"] == "call" and n.get("member"):
            leaf = n.get("callee", "").split("::")[-1]
            c = fn.kids(e)
            if leaf in ("acquire", "acquire_if_equal") and c and fn.nodes[c[0]]["k"] == "ref" and fn.nodes[c[0]].get("name") == name and \
                    (vid is None or fn.nodes[c[0]].get("vid") in (None, vid)):
                out.append(e)
    _defs_cache[key] = out
    return out


def srcs(fn, nid, depth=0, seen=None):
    """set of source tags of an expression, with locals expanded through all their definitions (flow-insensitive, bounded):
    load:<field leaf> (atomic load / guard acquisition from that field), call:<callee leaf>, param#<i>, field:<leaf>, const, this"""
    if seen is None:
        seen = set()
    out = set()
    if nid is None or nid < 0 or depth > 6 or nid in seen:
        return out
    seen.add(nid)
    n = fn.nodes[nid]
    k = n["k"]
    a = fn.atomic(nid) if k == "call" else None
    if a:
        if a["kind"] in ("load", "rmw", "cas"):
            fld = a["field"]
            if fld.startswith("param:"):
                idx = next((i for i, p in enumerate(fn.params) if p["name"] == fld[6:]), -1)
                out.add("load:param#%d" % idx)
            else:
                out.add("load:" + fld.split("::")[-1].replace("[]", ""))
        for c in fn.kids(nid)[1:]:
            out |= srcs(fn, c, depth + 1, seen)
        return out
    if k == "call":
        leaf = n.get("callee", "?").split("::")[-1]
        c = fn.kids(nid)
        if leaf in ("acquire", "acquire_if_equal", "acquire_guard") and len(c) >= 1:
            idx = 1 if n.get("member") else 0
            if idx < len(c):
                out.add("load:" + fn.field_of(c[idx]).split("::")[-1].replace("[]", ""))
            return out
        out.add("call:" + leaf)
        for x in c:
            out |= srcs(fn, x, depth + 1, seen)
        for x in n.get("inl_rets", ()):      # virtually inlined helper: its value is what it returns
            out |= srcs(fn, x, depth + 1, seen)
        return out
    if k == "ref":
        if n.get("dk") == "param":
            idx = next((i for i, p in enumerate(fn.params) if p["name"] == n["name"]), -1)
            out.add("param#%d" % idx)
            return out
        if n.get("dk") == "local":
            for d in all_defs(fn, n["name"]):
                out |= srcs(fn, d, depth + 1, seen)
            if not out:
                out.add("local:" + n["name"])
            return out
        if "v" in n:
            out.add("const")
        else:
            out.add("global:" + n.get("name", "?").split("::")[-1])
        return out
    if k == "member":
        out.add("field:" + n.get("leaf", "?"))
        for c in fn.kids(nid):
            out |= srcs(fn, c, depth + 1, seen)
        return out
    if k in ("lit", "null"):
        out.add("const")
        return out
    if k == "this":
        out.add("this")
        return out
    for c in fn.kids(nid):
        out |= srcs(fn, c, depth + 1, seen)
    return out


def src_loads(fn, nid, depth=0, seen=None):
    """atomic load events (node ids) whose results flow into the expression, through local definitions (flow-insensitive, bounded)"""
    if seen is None:
        seen = set()
    out = set()
    if nid is None or nid < 0 or depth > 6 or nid in seen:
        return out
    seen.add(nid)
    n = fn.nodes[nid]
    if n["k"] == "call":
        a = fn.atomic(nid)
        if a and a["kind"] == "load":
            out.add(nid)
            return out
    if n["k"] == "ref" and n.get("dk") == "local":
        for d in all_defs(fn, n["name"]):
            out |= src_loads(fn, d, depth + 1, seen)
        return out
    for c in fn.kids(nid):
        out |= src_loads(fn, c, depth + 1, seen)
    for x in n.get("inl_rets", ()):
        out |= src_loads(fn, x, depth + 1, seen)
    return out


def has_src(fn, nid, *tags):
    s = srcs(fn, nid)
    return all(any(t == x or (t.endswith("*") and x.startswith(t[:-1])) for x in s) for t in tags)


def cmp_between(fn, nid, ops, left_tags, right_tags):
    """binary comparison (either orientation) whose one operand derives from all left_tags and the other from all right_tags"""
    n = fn.nodes[nid]
    c = fn.kids(nid)
    if n["k"] == "bin" and n.get("op") in ops and len(c) == 2:
        pass
    elif n["k"] == "call" and n.get("callee", "").split("::")[-1] in tuple("operator" + o for o in ops) and len(c) == 2:
        pass
    else:
        return False
    return (has_src(fn, c[0], *left_tags) and has_src(fn, c[1], *right_tags)) or (has_src(fn, c[1], *left_tags) and has_src(fn, c[0], *right_tags))


def _deep_text(fn, nid, depth=0):
    """expression text with local variables followed through their definitions (bounded)"""
    txt = fn.expr(nid)
    if depth > 2:
        return txt
    for x in fn.subtree(nid):
        n = fn.nodes[x]
        if n["k"] == "ref" and n.get("dk") == "local":
            for d in all_defs(fn, n["name"]):
                txt += " <= " + _deep_text(fn, d, depth + 1)
    return txt
