"""Forward must-dataflow over one function CFG with a small set of boolean facts.

transfer_event(fn, nid, facts:set) -> set      (applied to every CFG event in order)
transfer_edge(fn, block, succ_index, succ, facts:set) -> set   (applied when leaving `block` through successor #succ_index)
A fact holds at a point iff it holds on every path reaching that point (intersection at joins, greatest fixpoint)."""

TOP = None  # unvisited


def forward_must(fn, init, transfer_event, transfer_edge=None, universe=None):
    live = fn.live_blocks()
    inn = {b: TOP for b in live}
    inn[fn.entry] = frozenset(init)
    out_edge = {}
    work = [fn.entry]
    at_event = {}
    iters = 0
    while work and iters < 10000:
        iters += 1
        b = work.pop()
        facts = set(inn[b])
        for e in fn.blocks[b]["elems"]:
            at_event[e] = frozenset(facts) if e not in at_event or True else at_event[e]
            facts = set(transfer_event(fn, e, facts))
        for si, s in enumerate(fn.blocks[b]["succ"]):
            if s is None or s not in live:
                continue
            f2 = set(facts)
            if transfer_edge is not None:
                f2 = set(transfer_edge(fn, b, si, s, f2))
            f2 = frozenset(f2)
            old = inn[s]
            new = f2 if old is TOP else (old & f2)
            if old is TOP or new != old:
                inn[s] = new
                work.append(s)
    # final pass to record facts before each event with the fixpoint block inputs
    before = {}
    for b in live:
        if inn[b] is TOP:
            continue
        facts = set(inn[b])
        for e in fn.blocks[b]["elems"]:
            before[e] = frozenset(facts)
            facts = set(transfer_event(fn, e, facts))
    return inn, before
