"""Finite execution of list-walking prefixes ("find the last node of the list I am about to hand over").

The CFG of the function is interpreted on small concrete singly linked lists (nodes 1..n, next(i) = i+1, next(n) = null) up to a stop event
(the first shared-memory operation / the hand-over call).  Only locals, null tests and reads of the link field are interpreted; anything else
makes the run inconclusive (Stuck).  This is evaluation of a pure, terminating pointer walk over a finite input space, not execution of the
library: no xenium code runs, the analysis reads the CFG extracted from the current source."""


class Stuck(Exception):
    pass


LINK_LEAVES = ("next", "next_free", "next_chunk", "next_entry", "_next")


class ListWalk:
    def __init__(self, fn, n, link_leaves=LINK_LEAVES, head_field=None):
        self.fn = fn
        self.n = n
        self.links = link_leaves
        self.head_field = head_field
        self.env = {}
        self.freed = set()          # nodes released so far (filled by the caller's on_event hook)
        self.read_after_free = []   # link reads through a released node

    def nxt(self, i):
        if not isinstance(i, int) or i <= 0:
            raise Stuck("link read through null / unknown pointer")
        if i in self.freed:
            self.read_after_free.append(i)
        return i + 1 if i < self.n else 0

    def ev(self, nid, depth=0):
        fn = self.fn
        if depth > 40:
            raise Stuck("expression too deep")
        n = fn.nodes[nid]
        k = n["k"]
        c = fn.kids(nid)
        if k in ("lit",):
            return n.get("v")
        if k == "null":
            return 0
        if k == "ref":
            if n.get("dk") in ("local", "param"):
                if n["name"] in self.env:
                    return self.env[n["name"]]
                raise Stuck("unbound %s" % n["name"])
            if isinstance(n.get("v"), int):
                return n["v"]
            raise Stuck("global " + n.get("name", "?"))
        if k == "cast" or (k == "construct" and len(c) == 1):
            return self.ev(c[0], depth + 1)
        if k == "member":
            leaf = n.get("leaf")
            if leaf in self.links and c:
                return self.nxt(self.ev(c[0], depth + 1))
            if self.head_field and leaf == self.head_field:
                return self.env.get("this." + leaf, 1)
            raise Stuck("member " + str(leaf))
        if k == "un" and c:
            if n["op"] == "!":
                return int(not self.ev(c[0], depth + 1))
            if n["op"] in ("*", "&"):
                return self.ev(c[0], depth + 1)
        if k == "bin" and len(c) == 2:
            op = n["op"]
            if op in ("==", "!="):
                return int((self.ev(c[0], depth + 1) == self.ev(c[1], depth + 1)) == (op == "=="))
            if op == "&&":
                return int(bool(self.ev(c[0], depth + 1)) and bool(self.ev(c[1], depth + 1)))
            if op == "||":
                return int(bool(self.ev(c[0], depth + 1)) or bool(self.ev(c[1], depth + 1)))
        if k == "call" and n.get("inl_ret_var"):
            if n["inl_ret_var"] in self.env:
                return self.env[n["inl_ret_var"]]       # value returned by a virtually inlined helper
            raise Stuck("inlined helper did not return on this path")
        if k == "call":
            leaf = n.get("callee", "").split("::")[-1]
            if leaf in self.links and c:                 # accessor returning the link cell: p->next_free()
                return ("cell", self.ev(c[0], depth + 1))
            if leaf in ("load", "get", "operator->", "operator*", "operator conv", "operator bool") and c:
                v = self.ev(c[0], depth + 1)
                if isinstance(v, tuple) and v[0] == "cell":
                    return self.nxt(v[1])
                return v
            if leaf in ("operator==", "operator!=") and len(c) >= 2:
                return int((self.ev(c[-2], depth + 1) == self.ev(c[-1], depth + 1)) == (leaf == "operator=="))
        raise Stuck("cannot evaluate %s" % fn.expr(nid)[:70])

    def run(self, stop, max_steps=400, on_event=None):
        """interpret from the entry until an event for which stop(fn, nid) holds; returns that event (env is left in self.env) or None if
        the function returned first"""
        fn = self.fn
        b = fn.entry
        steps = 0
        while b is not None:
            blk = fn.blocks[b]
            for e in blk["elems"]:
                steps += 1
                if steps > max_steps:
                    raise Stuck("walk does not terminate within %d steps on a list of %d nodes" % (max_steps, self.n))
                n = fn.nodes[e]
                if stop(fn, e):
                    return e
                if on_event is not None:
                    on_event(self, e)
                if n["k"] == "decl":
                    for v in n["vars"]:
                        if "init" in v:
                            try:
                                self.env[v["name"]] = self.ev(v["init"])
                            except Stuck:
                                self.env.pop(v["name"], None)
                elif n["k"] == "bin" and n["op"] == "=" or (n["k"] == "call" and n.get("callee", "").endswith("operator=")):
                    k = fn.kids(e)
                    if len(k) >= 2 and fn.nodes[k[0]]["k"] == "ref" and fn.nodes[k[0]].get("dk") in ("local", "param"):
                        try:
                            self.env[fn.nodes[k[0]]["name"]] = self.ev(k[-1])
                        except Stuck:
                            self.env.pop(fn.nodes[k[0]]["name"], None)
                elif n["k"] == "return":
                    return None
            succ = blk["succ"]
            if not succ or all(s is None for s in succ):
                return None
            if "cond" in blk and len(succ) == 2:
                b = succ[0] if self.ev(blk["cond"]) else succ[1]
            else:
                b = succ[0]
        return None
