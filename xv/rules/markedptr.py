"""K7 bit provenance for marked_ptr (C15.a): the three pure functions make_ptr / get / mark are compiled to straight-line LLVM IR (-O1) for every
mark width 1..32 and MaxUpperMarkBits in {8,16,32}; the IR is interpreted over the abstract bit domain {0,1,p_i,m_j,T} - no execution."""
import os
import re
import subprocess
import tempfile

from ..facts import REPO

WIDTHS = [(m, u) for u in (8, 16, 32) for m in range(1, 33)]


def _gen(path):
    lines = ['#include <xenium/marked_ptr.hpp>', '#include <cstdint>', '#include <cstring>', 'using u=std::uintptr_t;']
    for m, u in WIDTHS:
        t = "xenium::marked_ptr<char,%d,%d>" % (m, u)
        lines.append('extern "C" u enc_%d_%d(u p,u m){%s x(reinterpret_cast<char*>(p),m);u r;std::memcpy(&r,&x,8);return r;}' % (m, u, t))
        lines.append('extern "C" u get_%d_%d(u raw){%s x;std::memcpy(&x,&raw,8);return reinterpret_cast<u>(x.get());}' % (m, u, t))
        lines.append('extern "C" u mark_%d_%d(u raw){%s x;std::memcpy(&x,&raw,8);return x.mark();}' % (m, u, t))
        lines.append('extern "C" bool eq_%d_%d(u a,u b){%s x,y;std::memcpy(&x,&a,8);std::memcpy(&y,&b,8);return x==y;}' % (m, u, t))
    open(path, "w").write("\n".join(lines) + "\n")


ZERO, ONE, TOP = "0", "1", "T"


def _const(v):
    return [ONE if (v >> i) & 1 else ZERO for i in range(64)]


def _and(a, b):
    out = []
    for x, y in zip(a, b):
        if x == ZERO or y == ZERO:
            out.append(ZERO)
        elif x == ONE:
            out.append(y)
        elif y == ONE:
            out.append(x)
        elif x == y:
            out.append(x)
        else:
            out.append(TOP)
    return out


def _or(a, b):
    out = []
    for x, y in zip(a, b):
        if x == ONE or y == ONE:
            out.append(ONE)
        elif x == ZERO:
            out.append(y)
        elif y == ZERO:
            out.append(x)
        elif x == y:
            out.append(x)
        else:
            out.append(TOP)
    return out


def _xor(a, b):
    out = []
    for x, y in zip(a, b):
        if x == ZERO:
            out.append(y)
        elif y == ZERO:
            out.append(x)
        elif x == y:
            out.append(ZERO)
        else:
            out.append(TOP)
    return out


def _shl(a, k):
    return [ZERO] * k + a[:64 - k] if k < 64 else [ZERO] * 64


def _lshr(a, k):
    return a[k:] + [ZERO] * k if k < 64 else [ZERO] * 64


def _fshl(a, b, k):
    # concat(a:b) << k, high 64 bits
    k %= 64
    if k == 0:
        return list(a)
    return _or(_shl(a, k), _lshr(b, 64 - k))


def parse_ir(text):
    fns = {}
    cur = None
    for line in text.split("\n"):
        m = re.match(r"define .* @([A-Za-z0-9_]+)\((.*)\) ", line)
        if m:
            cur = {"name": m.group(1), "args": re.findall(r"%(\d+|[a-z][a-z0-9.]*)", m.group(2)), "body": []}
            fns[cur["name"]] = cur
            continue
        if cur is not None:
            if line.startswith("}"):
                cur = None
            elif line.strip():
                cur["body"].append(line.strip())
    return fns


class Unsupported(Exception):
    pass


def interp(fn, inputs):
    env = {}
    for a, v in zip(fn["args"], inputs):
        env["%" + a] = v

    def val(tok):
        tok = tok.strip().rstrip(",")
        if tok.startswith("%"):
            if tok not in env:
                raise Unsupported("unknown value " + tok)
            return env[tok]
        return _const(int(tok) & ((1 << 64) - 1))
    for ins in fn["body"]:
        m = re.match(r"(%[\w.]+) = (shl|lshr|and|or|xor)( nuw| nsw| exact| disjoint)* i64 ([^,]+), (.+)$", ins)
        if m:
            op, a, b = m.group(2), m.group(4), m.group(5)
            if op in ("shl", "lshr"):
                if b.strip().startswith("%"):
                    raise Unsupported("variable shift")
                k = int(b)
                env[m.group(1)] = _shl(val(a), k) if op == "shl" else _lshr(val(a), k)
            else:
                env[m.group(1)] = {"and": _and, "or": _or, "xor": _xor}[op](val(a), val(b))
            continue
        m = re.match(r"(%[\w.]+) = (?:tail )?call i64 @llvm\.fsh([lr])\.i64\(i64 ([^,]+), i64 ([^,]+), i64 (\d+)\)", ins)
        if m:
            k = int(m.group(5))
            a, b = val(m.group(3)), val(m.group(4))
            env[m.group(1)] = _fshl(a, b, k) if m.group(2) == "l" else _fshl(a, b, (64 - k) % 64)
            continue
        m = re.match(r"(%[\w.]+) = (?:inttoptr|ptrtoint|bitcast) \S+ (%[\w.]+) to ", ins)
        if m:
            env[m.group(1)] = val(m.group(2))
            continue
        m = re.match(r"(%[\w.]+) = icmp (eq|ne) \S+ ([^,]+), (.+)$", ins)
        if m:
            env[m.group(1)] = ("icmp", m.group(2), val(m.group(3)), val(m.group(4)))
            continue
        m = re.match(r"ret (i64|i1) (.+)$", ins)
        if m:
            return env[m.group(2).strip()] if m.group(2).strip().startswith("%") else _const(int(m.group(2)))
        raise Unsupported("instruction not in the straight-line bit-vector fragment: " + ins)
    raise Unsupported("no ret")


def rules(ctx):
    rid = "K7.marked-ptr-bits"
    ctx.rule(rid, "marked_ptr round trip, exhaustive over mark widths 1..32 x MaxUpperMarkBits {8,16,32}: with pointer bits outside the pointer mask zero, "
                  "every bit of get(make(p,m)) is the same-index pointer bit, bit j<MarkBits of mark(make(p,m)) is mark bit j and all others are 0, every pointer / "
                  "mark bit occupies its own position in the encoding (equality of encodings is value equality), operator== compares the whole word "
                  "(abstract interpretation of the -O1 LLVM IR over the bit domain {0,1,p_i,m_j,T})")
    with tempfile.TemporaryDirectory(prefix="xv-k7.") as d:
        src = os.path.join(d, "k7.cpp")
        _gen(src)
        r = subprocess.run(["clang++", "-std=gnu++17", "-O1", "-DNDEBUG", "-w", "-I" + REPO, "-S", "-emit-llvm", src, "-o", os.path.join(d, "k7.ll")],
                           stdout=subprocess.PIPE, stderr=subprocess.STDOUT, text=True)
        if r.returncode != 0:
            ctx.broken.append("K7: marked_ptr wrappers do not compile: " + r.stdout[-500:])
            return
        fns = parse_ir(open(os.path.join(d, "k7.ll")).read())
    n = 0
    for m, u in WIDTHS:
        lower = 0 if m < u else m - u
        pbits = 64 - m
        inst = "xenium::marked_ptr<T,%d,%d>" % (m, u)
        p_in = [("p%d" % i) if lower <= i < lower + pbits else ZERO for i in range(64)]
        m_in = ["m%d" % j for j in range(64)]
        try:
            enc = interp(fns["enc_%d_%d" % (m, u)], [p_in, m_in])
            got = interp(fns["get_%d_%d" % (m, u)], [enc])
            mk = interp(fns["mark_%d_%d" % (m, u)], [enc])
            eq = interp(fns["eq_%d_%d" % (m, u)], [["a%d" % i for i in range(64)], ["b%d" % i for i in range(64)]])
        except (Unsupported, KeyError) as ex:
            ctx.broken.append("K7: %s: %s" % (inst, ex))
            continue
        n += 1
        bad = None
        for i in range(64):
            if got[i] != p_in[i]:
                bad = "get(): bit %d is %s, expected %s" % (i, got[i], p_in[i])
                break
        if not bad:
            for j in range(64):
                want = ("m%d" % j) if j < m else ZERO
                if mk[j] != want:
                    bad = "mark(): bit %d is %s, expected %s" % (j, mk[j], want)
                    break
        if not bad:
            syms = [b for b in enc if b not in (ZERO, ONE, TOP)]
            want_syms = set(["p%d" % i for i in range(lower, lower + pbits)] + ["m%d" % j for j in range(m)])
            if TOP in enc:
                bad = "encoding mixes pointer and mark bits at bit %d" % enc.index(TOP)
            elif set(syms) != want_syms or len(syms) != len(set(syms)):
                bad = "encoding loses or duplicates bits (%d distinct of %d)" % (len(set(syms)), len(want_syms))
        if not bad:
            ok = isinstance(eq, tuple) and eq[0] == "icmp" and eq[1] == "eq" and eq[2] == ["a%d" % i for i in range(64)] and eq[3] == ["b%d" % i for i in range(64)]
            if not ok:
                bad = "operator== does not compare the complete encoded words"
        ctx.check(bad is None, rid, inst, "get/mark/encoding/== verified bit by bit (pointer bits %d..%d, %d mark bits, %d in the low bits)" % (lower, lower + pbits - 1, m, lower),
                  "%s: %s" % (inst, bad), "xenium/marked_ptr.hpp")
    ctx.exhaustive[rid] = True
    if n < len(WIDTHS):
        ctx.broken.append("K7: only %d of %d instantiations analysed" % (n, len(WIDTHS)))
