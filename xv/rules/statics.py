"""STATE.no-shared-static - no hidden state shared between objects / threads (C03 and every container property).

The synchronisation of every container is per object (its own sequence word, lock bit, version, guards).  A function-local `static` or a
namespace-scope / static-member variable that is neither `thread_local`, nor const, nor an atomic / a documented lock-free structure is
shared by all objects of the type and all threads, outside any of those protocols: two writers holding two different objects' locks race on it."""
from . import flow  # noqa: F401

# static data members that are shared by design and synchronised by their own protocol (atomics, lock-free lists) - confirmed by reading
SHARED_BY_DESIGN_TYPES = ("std::atomic", "xenium::reclamation::detail::thread_block_list", "xenium::reclamation::stamp_it::thread_order_queue",
                          "xenium::reclamation::lock_free_ref_count::enable_concurrent_ptr::free_list", "std::array")
SHARED_BY_DESIGN_NAMES = ("orphans",)   # generic_epoch_based::orphans is a std::array of atomics


def rules(ctx, file_suffixes, rid="STATE.no-shared-static", floor_tls=0):
    ctx.rule(rid, "every function-local static and every static data member / namespace-scope variable written or read by library code is "
                  "thread_local, const, or one of the shared-by-design synchronised structures (atomics, thread block lists, stamp-it's queue, "
                  "LFRC's global free list): per-object synchronisation does not protect state shared between objects")
    n_tls = 0
    seen = set()
    for fn in ctx.facts.fns:
        if "test/" in fn.file or not any(fn.file.endswith(s) or s in fn.file for s in file_suffixes):
            continue
        for e, n in enumerate(fn.nodes):
            if n["k"] != "ref" or n.get("dk") not in ("staticlocal", "global"):
                continue
            name = n.get("name", "?")
            t = n.get("t", "")
            key = (fn.pat, name)
            if key in seen:
                continue
            seen.add(key)
            if n.get("tls"):
                n_tls += 1
                ctx.ok(rid, "%s#%s" % (fn.pat, name), "thread_local", fn.where(e), fn=fn)
                continue
            if t.startswith("const ") or "v" in n:
                continue
            if name.startswith("std::"):
                continue
            leaf = name.split("::")[-1]
            if any(t.startswith(x) for x in SHARED_BY_DESIGN_TYPES) and (not t.startswith("std::array") or leaf in SHARED_BY_DESIGN_NAMES):
                ctx.ok(rid, "%s#%s" % (fn.pat, name), "shared by design: " + t, fn.where(e), nontrivial=False, fn=fn)
                continue
            ctx.bad(rid, "%s#%s" % (fn.pat, leaf), "%s uses the %s variable '%s' of type %s, which is shared by all objects and threads but is neither "
                    "thread_local nor const nor an atomic: the per-object synchronisation (lock bit / sequence / guards) does not order accesses to it" % (
                        fn.pat, "function-local static" if n.get("dk") == "staticlocal" else "static / namespace-scope", leaf, t), fn.where(e), fn=fn)
    if n_tls < floor_tls:
        ctx.broken.append("%s: only %d thread_local uses seen (floor %d)" % (rid, n_tls, floor_tls))
    return n_tls
