"""vyukov_hash_map rules (C10, C11)."""
import re

from . import flow
from .flow import chain, guarded, present
from .dataflow import forward_must
from .evalx import evalx, Unknown
from .schemes import call

V = "xenium::vyukov_hash_map::"
STATE_STORE = {"k": "call", "field": "bucket::state", "op": "store", "desc": "bucket.state.store"}
KEY_STORE = {"k": "call", "field": "bucket::key[]", "op": "store", "desc": "key[i].store"}
VALUE_STORE = {"k": "call", "field": "bucket::value[]", "op": "store", "desc": "value[i].store"}
STATE_CAS = {"k": "call", "field": "bucket::state", "kind": "cas", "desc": "bucket.state CAS"}


def _is_shared_read(fn, nid):
    n = fn.nodes[nid]
    if n["k"] != "call":
        return False
    a = fn.atomic(nid)
    if a and a["kind"] == "load":
        f = a["field"]
        return any(f.endswith(x) for x in ("bucket::key[]", "bucket::value[]", "bucket::head", "extension_item::next", "extension_item::key", "extension_item::value"))
    leaf = n.get("callee", "").split("::")[-1]
    if leaf in ("compare_trivial_key", "acquire") and "vyukov_hash_map_traits" in n.get("callee", ""):
        return True
    return False


def _is_state_load(fn, nid):
    a = fn.atomic(nid)
    return bool(a and a["kind"] == "load" and a["field"].endswith("bucket::state"))


def _version_cmp(fn, nid):
    n = fn.nodes[nid]
    if n["k"] != "bin" or n["op"] not in ("!=", "=="):
        return None
    x = fn.expr(nid)
    if x.count(".version()") == 2:
        return n["op"]
    return None


def reader_validation(ctx):
    rid = "VHM.reader-validation"
    ctx.rule(rid, "try_get_value (lock-free): every return is reached through the 'version unchanged' edge of a comparison between the "
                  "snapshot and a reload of bucket.state taken after the last read of a key/value/extension cell; a hit in an array "
                  "slot additionally passes the delete-marker test for that slot (marker == index+1)")
    for fn in flow._shapes(ctx, V + "try_get_value"):
        def tev(fn, nid, facts):
            if _is_shared_read(fn, nid):
                facts.discard("reloaded")
                facts.discard("valid")
            elif _is_state_load(fn, nid):
                facts.add("reloaded")
            return facts

        def tedge(fn, b, si, s, facts):
            blk = fn.blocks[b]
            if "cond" in blk and len(blk["succ"]) == 2:
                atom, pol = flow.strip_cond(fn, blk["cond"])
                op = _version_cmp(fn, atom) if atom is not None and atom >= 0 else None
                if op:
                    # edge on which versions are equal
                    equal_edge = (1 if op == "!=" else 0)
                    if not pol:
                        equal_edge = 1 - equal_edge
                    if si == equal_edge and "reloaded" in facts:
                        facts.add("valid")
                    else:
                        facts.discard("valid")
            return facts
        inn, before = forward_must(fn, {"valid"}, tev, tedge)
        rets = flow.find(fn, {"k": "return"})
        if not rets:
            ctx.bad(rid, V + "try_get_value#returns", "no return found", fn.where(), fn=fn)
        for r in rets:
            kids = fn.kids(r)
            val = fn.nodes[kids[0]].get("v") if kids else None
            inst = V + "try_get_value#return-%s@validated" % ("true" if val == 1 else "false" if val == 0 else "x")
            ok = "valid" in before.get(r, ())
            ctx.check(ok, rid, inst, "return dominated by a version re-validation after the last shared read",
                      "try_get_value can return %s on a path where the bucket version was not re-validated after the last read of a shared "
                      "cell (a concurrent erase that moved/recycled the item goes unnoticed)" % ("a hit" if val == 1 else "'absent'"), fn.where(r), fn=fn)
        # lock-freedom of the reader: the snapshot is re-read (retry) only when the bucket version changed - retrying on an unchanged version means
        # waiting for whoever holds the bucket (e.g. while a delete marker is set)
        snaps = [e for e in flow.find(fn, {"k": "call", "field": "bucket::state", "op": "load"}) if not any(
            fn.before(x, e) for x in flow.find(fn, {"k": "call"}) if _is_shared_read(fn, x))]

        def differ(f_, nid):
            op = _version_cmp(f_, nid)
            if op is None:
                return None
            return True if op == "!=" else False
        for sp in snaps[:1]:
            ok, path, n_ = flow.between_only_via(fn, sp, sp, differ)
            ctx.check(ok and n_ > 0, rid, V + "try_get_value#retry-only-if-version-changed", "every retry passes a 'version changed' edge",
                      "try_get_value jumps back to re-read the bucket state on a path where the version did not change: the documented lock-free reader then spins "
                      "until the thread holding the bucket (e.g. an eraser with the delete marker set) proceeds", fn.where(sp), fn=fn, path=flow.describe_path(fn, path))
        # delete-marker test for array hits
        for r in rets:
            kids = fn.kids(r)
            if not kids or fn.nodes[kids[0]].get("v") != 1:
                continue
            # is this the array-slot hit? dominated by traits::acquire(bucket.value[i])
            acq = [e for e in flow.find(fn, {"k": "call", "callee": "acquire"}) if any(fn.field_of(k).endswith("bucket::value[]") for k in fn.kids(e)) and fn.before(e, r)]
            if not acq:
                continue
            mk = lambda f, nid: f.nodes[nid]["k"] == "bin" and f.nodes[nid]["op"] in ("==", "!=") and "delete_marker()" in f.expr(nid)
            ok, path, n = flow.only_via(fn, r, mk, False)
            # polarity False for '==' means marker != index+1
            ctx.check(ok and n > 0, rid, V + "try_get_value#array-hit|marker", "array hit only if the slot is not marked as being deleted",
                      "an array-slot hit is returned without testing the delete marker of that slot", fn.where(r), fn=fn, path=flow.describe_path(fn, path))
            # marker value == slot index + 1
            for b, blk in fn.blocks.items():
                if "cond" in blk and mk(fn, blk["cond"]):
                    c = fn.kids(blk["cond"])
                    other = c[1] if "delete_marker()" in fn.expr(c[0]) else c[0]
                    bad = None
                    try:
                        lv = [fn.nodes[x]["name"] for x in fn.subtree(other) if fn.nodes[x]["k"] == "ref" and fn.nodes[x].get("dk") == "local"]
                        for i in range(0, 4):
                            env_ = {nm: i for nm in lv}
                            for nm in list(lv):
                                d_ = flow.unique_def(fn, nm)
                                if d_ is not None and fn.nodes[d_]["k"] == "bin":
                                    env_.pop(nm)   # e.g. delete_marker = i + 1: evaluate through its definition
                                    env_.update({fn.nodes[y]["name"]: i for y in fn.subtree(d_) if fn.nodes[y]["k"] == "ref" and fn.nodes[y].get("dk") == "local"})
                            if evalx(fn, other, env_) != i + 1:
                                bad = i
                    except Unknown as e:
                        ctx.note("marker expression not evaluable: %s" % e)
                        continue
                    ctx.check(bad is None, rid, V + "try_get_value#marker==index+1", "reader compares the marker with index+1",
                              "reader compares the delete marker with a value different from slot index + 1", fn.where(blk["cond"]), fn=fn)


def marker_protocol(ctx):
    rid = "VHM.marker"
    ctx.rule(rid, "writer side of the delete-marker protocol (do_extract, erase(iterator&)): marker store (value = overwritten slot + 1) "
                  "< key store < value release-store < version bump; every removal bumps the version before unlocking")
    for f in ("do_extract", "erase"):
        for fn in flow._shapes(ctx, V + f):
            marks = [e for e in flow.find(fn, call("set_delete_marker"))]
            if f == "erase" and not any(p["name"] == "pos" for p in fn.params):
                continue
            inst0 = V + f
            if not marks:
                ctx.bad(rid, inst0 + "#marker", "no set_delete_marker call in %s: readers cannot detect a slot being overwritten" % f, fn.where(), fn=fn)
                continue
            kstores = flow.find(fn, KEY_STORE)
            vstores = flow.find(fn, VALUE_STORE)
            pubs_all = [s_ for s_ in flow.find(fn, STATE_STORE) if "set_delete_marker" in _deep_expr(fn, s_)]
            if not pubs_all:
                ctx.bad(rid, inst0 + "#marker<key", "no bucket.state store publishes the delete marker in %s" % f, fn.where(marks[0]), fn=fn)
                continue
            for m in marks:
                # the state store that publishes this marker: the first publication dominated by the marker computation
                pubs = sorted([p_ for p_ in pubs_all if fn.before(m, p_) or m in fn.subtree(p_)], key=lambda x: fn.nodes[x].get("l", 0))[:1]
                ks = [k for k in kstores if pubs and fn.before(pubs[0], k)]
                ks = sorted(ks, key=lambda k: fn.nodes[k].get("l", 0))
                later = [x for x in marks if x != m and fn.before(m, x)]
                ks = [k for k in ks if not any(fn.before(x, k) for x in later)]
                ok = bool(pubs) and bool(ks)
                if not ok:
                    ctx.bad(rid, inst0 + "#marker<key", "set_delete_marker at line %d is not published by a state store that precedes the key overwrite" % fn.nodes[m]["l"],
                            fn.where(m), fn=fn)
                    continue
                k0 = ks[0]
                vs = [v for v in vstores if fn.before(k0, v)]
                bumps = [s_ for s_ in flow.find(fn, STATE_STORE) + flow.find(fn, call("unlock")) if "new_version" in fn.expr(s_) or "new_version" in _deep_expr(fn, s_)]
                okb = False
                if vs:
                    okb, _p = flow.always_after(fn, vs[0], bumps)
                ctx.check(bool(vs) and okb, rid, inst0 + "#marker<key<value<version@L-rel%d" % marks.index(m),
                          "marker publication < key store < value store < version bump",
                          "after the marker at line %d the order key store < value store < version bump is not kept on every path" % fn.nodes[m]["l"], fn.where(m), fn=fn)
                # marker value = overwritten index + 1
                marg = fn.kids(m)[-1]
                idxnode = None
                kn = fn.kids(k0)[0]
                if fn.nodes[kn]["k"] == "index":
                    idxnode = fn.kids(kn)[1]
                bad = None
                if idxnode is not None:
                    try:
                        lv = {fn.nodes[x]["name"] for x in fn.subtree(marg) + fn.subtree(idxnode) if fn.nodes[x]["k"] == "ref" and fn.nodes[x].get("dk") in ("local",)}
                        for i in range(0, 3):
                            env = {"index": i, "this.index": i}
                            env.update({nm: i for nm in lv})
                            if evalx(fn, marg, env) != evalx(fn, idxnode, env) + 1:
                                bad = i
                                break
                    except Unknown as e:
                        ctx.note("marker argument not evaluable in %s: %s" % (f, e))
                        idxnode = None
                if idxnode is not None:
                    ctx.check(bad is None, rid, inst0 + "#marker==slot+1@%d" % marks.index(m), "marker value equals overwritten slot + 1",
                              "set_delete_marker(%s) at line %d does not equal the overwritten slot index (%s) + 1: readers of that slot are not warned "
                              "(or readers of another slot are misled)" % (fn.expr(marg), fn.nodes[m]["l"], fn.expr(idxnode)), fn.where(m), fn=fn)
    # every successful removal bumps the version
    for fn in flow._shapes(ctx, V + "do_extract"):
        rets = [r for r in flow.find(fn, {"k": "return"}) if fn.kids(r) and fn.nodes[fn.kids(r)[0]].get("v") == 1]
        unl = flow.find(fn, call("unlocker::unlock"))
        bumping = [u for u in unl if "new_version" in _deep_expr(fn, u)]
        for r in rets:
            ok, path = flow.must_pass(fn, r, bumping)
            ctx.check(ok and bool(bumping), rid, V + "do_extract#removal-bumps-version@L-rel%d" % rets.index(r), "every path to 'return true' unlocks with new_version()",
                      "a successful removal unlocks the bucket without bumping the version: a concurrent lock-free reader cannot detect the removal", fn.where(r), fn=fn,
                      path=flow.describe_path(fn, path))
        # removal from the array without refill decrements the item count
        ctx.check(any("dec_item_count" in _deep_expr(fn, u) for u in unl), rid, V + "do_extract#dec_item_count", "array removal decrements item_count",
                  "no unlock state with dec_item_count(): the vacated slot stays counted", fn.where(), fn=fn)
    for fn in flow._shapes(ctx, V + "do_get_or_emplace"):
        unl = flow.find(fn, call("unlocker::unlock"))
        ctx.check(any("inc_item_count" in _deep_expr(fn, u) for u in unl), rid, V + "do_get_or_emplace#inc_item_count", "array insertion increments item_count on unlock",
                  "a new array item is never published (no unlock with inc_item_count())", fn.where(), fn=fn)


def _deep_expr(fn, nid, depth=0):
    """expression text with local variables replaced by the text of all their definitions (bounded)"""
    txt = fn.expr(nid)
    if depth > 2:
        return txt
    extra = []
    for x in fn.subtree(nid):
        n = fn.nodes[x]
        if n["k"] == "ref" and n.get("dk") == "local":
            for d in flow.local_defs(fn, n["name"]):
                if d is not None:
                    extra.append(_deep_expr(fn, d, depth + 1))
    return txt + " <= " + " | ".join(extra) if extra else txt


def insert_publication(ctx):
    rid = "VHM.insert-publication"
    ctx.rule(rid, "do_get_or_emplace publishes a new item only after it is completely written: array slot: store_item < unlock(inc_item_count, release); "
                  "extension item: store_item < next.store(old head) < head.store(release) < unlock; a failed store_item frees the extension item")
    for fn in flow._shapes(ctx, V + "do_get_or_emplace"):
        si = flow.find(fn, call("store_item"))
        unl = flow.find(fn, call("unlocker::unlock"))
        hs = flow.find(fn, {"k": "call", "field": "bucket::head", "op": "store"})
        ns = flow.find(fn, {"k": "call", "field": "extension_item::next", "op": "store"})
        inst = V + "do_get_or_emplace"
        if len(si) < 2 or not unl or not hs or not ns:
            ctx.bad(rid, inst + "#shape", "expected two store_item sites (array / extension), head.store, next.store, unlock (found %d/%d/%d/%d)" % (len(si), len(hs), len(ns), len(unl)),
                    fn.where(), fn=fn)
            continue
        inc = [u for u in unl if "inc_item_count" in _deep_expr(fn, u)]
        ok1 = bool(inc) and all(any(fn.before(s_, u) for s_ in si) for u in inc)
        ctx.check(ok1, rid, inst + "#array:store<publish", "array item written before the item count is published",
                  "the item count is published (unlock with inc_item_count) before the slot was written", fn.where(inc[0]) if inc else fn.where(), fn=fn)
        ok2 = all(any(fn.before(n_, h) for n_ in ns) for h in hs) and all(any(fn.before(s_, h) for s_ in si) for h in hs)
        ctx.check(ok2, rid, inst + "#extension:store<next<head", "extension item written and linked (next) before bucket.head is published",
                  "bucket.head is published before the new extension item was written / linked to the old head (readers follow a dangling next)", fn.where(hs[0]), fn=fn)
        ok3 = all(flow.always_after(fn, h, unl)[0] for h in hs)
        ctx.check(ok3, rid, inst + "#extension:head<unlock", "bucket unlocked after the extension item was published", "the bucket stays locked after inserting an extension item", fn.where(hs[0]), fn=fn)


def locking(ctx):
    rid = "VHM.lock-pairing"
    ctx.rule(rid, "bucket lock pairing: a successful lock is handed to a RAII unlocker before anything can throw or return; "
                  "disable() is only used immediately before grow(), which unlocks; lock_bucket returns only with the lock")
    guarded(ctx, rid, V + "lock_bucket", {"k": "return"}, STATE_CAS, True, label="return|locked")
    guarded(ctx, rid, V + "lock_bucket", STATE_CAS, call("is_locked"), False, label="cas|!locked")
    for f, lockm in (("do_get_or_emplace", call("lock_bucket")), ("do_extract", STATE_CAS)):
        for fn in flow._shapes(ctx, V + f):
            locks = flow.find(fn, lockm)
            unl = [e for e in flow.find(fn, {"k": "construct", "callee": "unlocker::unlocker"})]
            inst = V + f + "#lock->unlocker"
            if not locks or not unl:
                ctx.bad(rid, inst, "%s must lock the bucket and hand the lock to an unlocker (locks: %d, unlockers: %d)" % (f, len(locks), len(unl)), fn.where(), fn=fn)
                continue
            ok = all(any(fn.before(l, u) for l in locks) for u in unl)
            # no call to a xenium function / return between the lock and the unlocker construction
            between = []
            for l in locks:
                for b, i, e, n in fn.events():
                    if n["k"] in ("call", "return", "throw") and fn.before(l, e) and any(fn.before(e, u) for u in unl) and e != l:
                        if n["k"] == "call" and (fn.atomic(e) or n.get("callee", "").split("::")[-1] in ("locked", "item_count", "is_locked", "operator()")):
                            continue
                        if e in fn.subtree(unl[0]):
                            continue
                        between.append(e)
            ctx.check(ok and not between, rid, inst, "unlocker constructed right after the lock was obtained",
                      "between obtaining the bucket lock and constructing the unlocker there are events that can leave the function (%s)" % ", ".join(
                          fn.expr(e)[:40] for e in between[:3]), fn.where(unl[0]), fn=fn)
    for fn in flow._shapes(ctx, V + "do_get_or_emplace"):
        dis = flow.find(fn, call("unlocker::disable"))
        gr = flow.find(fn, call("vyukov_hash_map::grow"))
        for d in dis:
            ok, path = flow.always_after(fn, d, gr)
            ctx.check(ok and bool(gr), rid, V + "do_get_or_emplace#disable->grow", "disable() is always followed by grow()",
                      "unlocker.disable() is not followed by grow() on every path: the bucket stays locked forever", fn.where(d), fn=fn)
    # grow releases the bucket lock it was handed, after trying to take the resize lock
    chain(ctx, rid, V + "grow", [{"k": "call", "field": "resize_lock", "op": "exchange", "desc": "resize_lock.exchange"}, STATE_STORE], label="resize-lock<bucket-unlock")
    # unlocker destructor unlocks when still enabled
    U = V + "unlocker::"
    guarded(ctx, rid, U + "~unlocker", {"k": "call", "field": "bucket::state", "op": "store"}, {"k": "member", "name": "enabled", "desc": "enabled"}, True,
            label="dtor-unlocks|enabled")
    chain(ctx, rid, U + "unlock", [{"k": "call", "field": "bucket::state", "op": "store"}], label="unlock-stores")


def hash_agreement(ctx):
    """grow() re-distributes the entries with the hash the lookups use"""
    rid = "VHM.grow"
    import re as _re
    n = 0
    custom = 0
    for fn in ctx.facts.fns:
        if not fn.pat.endswith("::rehash") or "vyukov_hash_map" not in fn.pat:
            continue
        calls = [e for b, i, e, nn in fn.events() if nn["k"] == "call" and nn.get("callee", "").endswith("::operator()")]
        for inst in fn.insts:
            m = _re.search(r"::rehash<(.*)>$", inst)
            if not m or not calls:
                continue
            want = _re.sub(r"<.*", "", m.group(1)).strip()          # the Hash template argument, template arguments erased
            n += 1
            if not want.endswith("xenium::hash") and want != "hash":
                custom += 1
            got = calls[0] and fn.nodes[calls[0]]["callee"][:-len("::operator()")]
            ok = got == want or got.split("::")[-1] == want.split("::")[-1]
            ctx.check(ok, rid, fn.pat + "#configured-hash[%s]" % want.split("::")[-1], "rehash<%s> hashes with %s" % (want, got),
                      "rehash<%s>() computes the hash with %s instead of the configured hash functor: after a grow() the entries sit in buckets that lookups with the "
                      "configured hash do not visit (present keys reported absent, duplicates on insert)" % (want, got), fn.where(calls[0]), fn=fn)
    if n < 2 or custom < 1:
        ctx.broken.append("VHM hash agreement: %d rehash instantiations analysed, %d with a configured (non-default) hash" % (n, custom))


def pool_locking(ctx):
    """the shared pools of extension items are plain singly linked lists protected by a spin lock per pool"""
    rid = "VHM.pool-lock"
    ctx.rule(rid, "extension-item pools (allocate_extension_item / free_extension_item): the pool head is written only between acquire_lock and release_lock, "
                  "and the value written / the item handed out is computed from a read of the head taken under that lock (a head read before the lock is only a "
                  "hint: another thread may pop or push in between)")
    HEAD = "extension_bucket::head"
    n = 0
    for f in ("allocate_extension_item", "free_extension_item"):
        for fn in flow._shapes(ctx, V + f):
            locks = flow.find(fn, call("acquire_lock"))
            unlocks = flow.find(fn, call("release_lock"))
            stores = flow.find(fn, {"k": "call", "field": HEAD, "op": "store"})
            inst = V + f
            if not stores or not locks or not unlocks:
                ctx.bad(rid, inst + "#locked-update", "%s must update the pool head under the pool lock (stores %d, acquire_lock %d, release_lock %d)" % (
                    f, len(stores), len(locks), len(unlocks)), fn.where(), fn=fn)
                continue
            for s in stores:
                n += 1
                ok = any(fn.before(l, s) for l in locks) and flow.always_after(fn, s, unlocks)[0] and not any(
                    fn.before(l, u) and fn.before(u, s) and not any(fn.before(u, l2) and fn.before(l2, s) for l2 in locks) for l in locks for u in unlocks)
                ctx.check(ok, rid, inst + "#store-under-lock", "head store at line %d lies between acquire_lock and release_lock" % fn.nodes[s].get("l", 0),
                          "the pool head is written outside the pool lock", fn.where(s), fn=fn)
                feeding = flow.src_loads(fn, fn.kids(s)[1])
                for r in flow.find(fn, {"k": "return"}):
                    if fn.kids(r) and fn.event_reaches(s, r):
                        feeding |= flow.src_loads(fn, fn.kids(r)[0])
                heads = [l for l in feeding if fn.atomic(l)["field"].endswith(HEAD)]
                stale = [l for l in heads if not any(fn.before(k, l) for k in locks)]
                ctx.check(not stale, rid, inst + "#read-under-lock", "the head value used for the update is read under the lock",
                          "the pool head read at line %d is taken BEFORE acquire_lock but is used to compute the new head / the item handed out: two threads that overflow "
                          "buckets sharing this pool can pop the same extension item (lost inserts, items linked into two buckets)" % (
                              fn.nodes[stale[0]].get("l", 0) if stale else 0), fn.where(stale[0]) if stale else fn.where(), fn=fn)
    if n < 2:
        ctx.broken.append("VHM.pool-lock: only %d pool head stores found" % n)


def grow_protocol(ctx):
    rid = "VHM.grow"
    ctx.rule(rid, "grow: every old bucket is locked before the first item is copied; the new block is published (release) before the "
                  "resize lock is released; the old block is retired afterwards; rehashed items land in new_buckets[h & mask]")
    OLD_LOCK = {"k": "call", "field": "bucket::state", "kind": "cas", "desc": "lock old bucket"}
    COPY = {"k": "call", "field": "bucket::key[]", "op": "store", "desc": "copy into new bucket"}
    PUBLISH = {"k": "call", "field": "data_block", "op": "store", "desc": "publish new block"}
    chain(ctx, rid, V + "do_grow", [OLD_LOCK, COPY], mode="nobefore", label="lock-all<copy",
          why="all buckets of the old block must be locked before the first item is moved")
    chain(ctx, rid, V + "do_grow", [COPY, PUBLISH], mode="nobefore", label="copy<publish", why="the new block is published only when it is complete")
    for fn in flow._shapes(ctx, V + "do_grow"):
        pubs = flow.find(fn, PUBLISH)
        copies = flow.find(fn, COPY)
        unl = [e for e in flow.find(fn, {"k": "call", "field": "resize_lock", "op": "store"}) if any(fn.event_reaches(c, e) for c in copies)]
        ok = bool(pubs) and bool(unl) and all(any(fn.before(p_, u) for p_ in pubs) for u in unl)
        ctx.check(ok, rid, V + "do_grow#publish<unlock-resize", "the resize lock is released (after copying) only after the new block was published",
                  "the resize lock can be released after the rehash without/ before publishing the new block: waiting threads re-read data_block after the resize lock "
                  "is released and continue on the old block", fn.where(unl[0]) if unl else fn.where(), fn=fn)
    for fn in flow._shapes(ctx, V + "do_grow"):
        # destination index: (rehash(key) & new_block->mask) - a '&' node with the mask field as one operand and the recomputed hash as the other
        ands = [e for e, n_ in enumerate(fn.nodes) if n_["k"] == "bin" and n_["op"] in ("&", "%") and len(fn.kids(e)) == 2 and
                    any(flow.has_src(fn, k, "field:mask") for k in fn.kids(e))]   # operands by their sources: a mask cached in a local is the same thing
        ok = len(ands) >= 2 and all(fn.nodes[e]["op"] == "&" and flow.has_src(fn, e, "call:rehash") for e in ands)
        decls = ands
        ctx.check(ok, rid, V + "do_grow#dest=h&new-mask", "items are re-inserted at new_buckets[rehash(key) & new_block->mask] (%d sites)" % len(ands),
                  "a rehashed item is not placed at new_buckets[rehash(key) & new_block->mask]: lookups (hash & mask) will not find it", fn.where(decls[0]) if decls else fn.where(), fn=fn)
        rh = flow.find(fn, call("rehash"))
        ctx.check(len(rh) >= 2, rid, V + "do_grow#rehash", "hash recomputed from the stored key for array and extension items",
                  "rehash must be applied to array items and extension items", fn.where(), fn=fn)
    # the lookup side uses the same mapping
    for f in ("try_get_value", "lock_bucket", "do_extract"):
        for fn in flow._shapes(ctx, V + f):
            ands = [e for e, n_ in enumerate(fn.nodes) if n_["k"] == "bin" and n_["op"] in ("&", "%") and len(fn.kids(e)) == 2 and
                    any(flow.has_src(fn, k, "field:mask") for k in fn.kids(e))]   # operands by their sources: a mask cached in a local is the same thing
            decls = ands
            ok = bool(ands) and all(fn.nodes[e]["op"] == "&" and (flow.has_src(fn, e, "param#0") or flow.has_src(fn, e, "call:operator()")) for e in ands)
            ctx.check(ok, rid, V + f + "#bucket=h&mask", "bucket index = hash & block->mask",
                      "%s maps the hash to a bucket differently from grow()" % f, fn.where(decls[0]) if decls else fn.where(), fn=fn)


def iterator_rules(ctx):
    I = V + "iterator::"
    rid = "VHM.iterator-lock"
    ctx.rule(rid, "iterator lock typestate: an iterator positioned on a bucket owns its lock; reset() and move_to_next_bucket() write the "
                  "cached state back (unlock); move assignment releases the held lock first; moved-from iterators are emptied")
    # reset: unlocking store guarded by current_bucket, and current_bucket cleared afterwards
    guarded(ctx, rid, I + "reset", STATE_STORE, {"k": "member", "name": "current_bucket", "desc": "current_bucket"}, True, label="unlock|positioned")
    present(ctx, rid, I + "reset", STATE_STORE, label="unlocking-store")
    for fn in flow._shapes(ctx, I + "reset"):
        st = flow.find(fn, STATE_STORE)
        ok = bool(st) and all("current_bucket_state" in fn.expr(s) for s in st)
        ctx.check(ok, rid, I + "reset#writes-cached-state", "reset stores current_bucket_state",
                  "reset() must unlock the bucket by storing the iterator's cached bucket state", fn.where(), fn=fn)
        asg = [e for e in flow.find(fn, {"k": "bin"}) if fn.nodes[e]["op"] == "=" and fn.field_of(fn.kids(e)[0]).endswith("iterator::current_bucket")]
        ctx.check(bool(asg), rid, I + "reset#clears-position", "current_bucket cleared", "reset() must clear current_bucket (double unlock otherwise)", fn.where(), fn=fn)
    chain(ctx, rid, I + "~iterator", [call("iterator::reset")], label="dtor-resets")
    # move assignment: reset() before current_bucket is overwritten (F6)
    for fn in flow._shapes(ctx, I + "operator="):
        asg = [e for e in flow.find(fn, {"k": "bin"}) if fn.nodes[e]["op"] == "=" and fn.field_of(fn.kids(e)[0]).endswith("iterator::current_bucket")
               and flow.has_src(fn, fn.kids(e)[1], "param#0")]
        rs = flow.find(fn, call("iterator::reset"))
        ok = bool(asg) and bool(rs) and all(any(fn.before(r, a) for r in rs) for a in asg)
        ctx.check(ok, rid, I + "operator=#reset-before-overwrite", "held lock released before current_bucket is overwritten",
                  "move assignment overwrites current_bucket without releasing the bucket lock the iterator holds (lock leaked: deadlock)", fn.where(), fn=fn)
        clr = [e for e in flow.find(fn, {"k": "bin"}) if fn.nodes[e]["op"] == "=" and flow.has_src(fn, fn.kids(e)[0], "param#0") and fn.field_of(fn.kids(e)[0]).endswith("current_bucket")]
        ctx.check(bool(clr), rid, I + "operator=#source-emptied", "moved-from iterator gives up the lock", "moved-from iterator keeps current_bucket: the lock is released twice",
                  fn.where(), fn=fn)
        selfchk = [b for b, blk in fn.blocks.items() if "cond" in blk and "this" in fn.expr(blk["cond"]) and flow.has_src(fn, blk["cond"], "param#0")]
        ctx.check(bool(selfchk), rid, I + "operator=#self-assignment", "self-assignment tested", "self move-assignment is not handled (lock lost)", fn.where(), fn=fn)
    for fn in flow._shapes(ctx, I + "iterator"):
        if not any(p["name"] == "other" for p in fn.params):
            continue
        clr = [e for e in flow.find(fn, {"k": "bin"}) if fn.nodes[e]["op"] == "=" and flow.has_src(fn, fn.kids(e)[0], "param#0") and fn.field_of(fn.kids(e)[0]).endswith("current_bucket")]
        ctx.check(bool(clr), rid, I + "iterator(iterator&&)#source-emptied", "moved-from iterator gives up the lock", "move constructor leaves the source owning the lock", fn.where(), fn=fn)
    # move_to_next_bucket: lock next (CAS) before unlocking the previous; unlock stores the saved old state to the saved old bucket
    chain(ctx, rid, I + "move_to_next_bucket", [STATE_CAS, {"k": "call", "field": "bucket::state", "op": "store", "desc": "previous bucket's state.store"}],
          label="lock-next<unlock-prev")
    for fn in flow._shapes(ctx, I + "move_to_next_bucket"):
        st = [s for s in flow.find(fn, STATE_STORE)]
        ok = bool(st) and all(flow.has_src(fn, fn.kids(s_)[1], "field:current_bucket_state") for s_ in st)
        ctx.check(ok, rid, I + "move_to_next_bucket#unlock-with-cached-state", "previous bucket unlocked with its cached state",
                  "the previous bucket is unlocked with a state other than the iterator's cached one", fn.where(), fn=fn)
        guarded(ctx, rid, I + "move_to_next_bucket", {"k": "call", "expr_re": r"^\(this->current_bucket_state = st\)", "desc": "current_bucket_state = st"}, STATE_CAS, True,
                label="cache|locked")
    # find / begin / erase(iterator) position invariants (C11.c paired fields)
    rid2 = "VHM.iterator-position"
    ctx.rule(rid2, "iterator position fields form one datum: whenever `extension` is set to a node, `prev` is set to the link that holds it; "
                   "erase(iterator&) keeps the cached bucket state equal to the last state stored (lock bit cleared)")
    for pat in (V + "find", I + "operator++", V + "erase"):
        for fn in flow._shapes(ctx, pat):
            if pat.endswith("erase") and not any(p["name"] == "pos" for p in fn.params):
                continue
            if pat.endswith("::find") and fn.relfile.endswith("vyukov_hash_map.hpp") is False:
                continue
            ext_sets = []
            for e in flow.find(fn, {"k": "bin"}):
                n = fn.nodes[e]
                if n["op"] != "=":
                    continue
                lhs = fn.kids(e)[0]
                if fn.field_of(lhs).endswith("iterator::extension"):
                    rhs = fn.kids(e)[1]
                    if fn.nodes[rhs]["k"] == "null":
                        continue
                    ext_sets.append(e)
            prev_sets = [e for e in flow.find(fn, {"k": "bin"}) if fn.nodes[e]["op"] == "=" and fn.field_of(fn.kids(e)[0]).endswith("iterator::prev")
                         and fn.nodes[fn.kids(e)[1]]["k"] != "null"]
            for x in ext_sets:
                rhs = fn.expr(fn.kids(x)[1])
                # advancing within the list (extension = extension->next / next after unlink through prev) keeps prev valid if prev was
                # updated in the same step or the link was rewritten through prev
                stores_via_prev = [e for e in flow.find(fn, {"k": "call"}) if fn.atomic(e) and fn.atomic(e)["op"] == "store" and "prev" in fn.expr(fn.kids(e)[0])]
                ok = any(fn.before(p, x) or fn.before(x, p) for p in prev_sets) or any(fn.before(s, x) for s in stores_via_prev)
                if not ok and prev_sets:
                    # prev assigned in every branch that leads here (no single assignment dominates), or the node is read THROUGH prev itself
                    ok = flow.must_pass(fn, x, prev_sets)[0] or flow.has_src(fn, fn.kids(x)[1], "field:prev")
                ctx.check(ok, rid2, pat + "#extension-with-prev@L-rel%d" % ext_sets.index(x), "extension set together with prev",
                          "iterator::extension is set (to %s) on a path where iterator::prev is not set to the link holding it: erase(iterator&) "
                          "dereferences a stale/null prev" % rhs, fn.where(x), fn=fn)
    # erase(iterator&): cached state coherence (F7) is decided by cache_coherence() below (abstract interpretation of the bucket_state algebra)


# ---------------------------------------------------------------------------------------------------------------
def cursor_prev_pairing(ctx):
    """C11.c strengthened: wherever the extension cursor advances along ->next, the exported predecessor link is advanced with it"""
    rid = "VHM.iterator-position"
    I = V + "iterator::"
    for pat in (V + "find", I + "operator++", V + "do_extract"):
        for fn in flow._shapes(ctx, pat):
            if pat.endswith("::find") and len(fn.params) != 1:
                continue
            adv = []
            for b, i, e, n in fn.events():
                a = fn.atomic(e)
                if not a or a["kind"] != "load" or not a["field"].endswith("extension_item::next"):
                    continue
                # is the result assigned to the cursor?
                tgt = None
                for x, xn in enumerate(fn.nodes):
                    if xn["k"] == "bin" and xn["op"] == "=" and e in fn.kids(x)[1:2]:
                        tgt = fn.expr(fn.kids(x)[0])
                    elif xn["k"] == "decl":
                        for v in xn["vars"]:
                            if v.get("init") == e:
                                tgt = v["name"]
                if tgt is None:
                    continue
                is_member_cursor = re.search(r"(\.|->)extension$", tgt) is not None
                flows_to_cursor = any(xn["k"] == "bin" and xn["op"] == "=" and fn.field_of(fn.kids(x)[0]).endswith("iterator::extension") and fn.expr(fn.kids(x)[1]) == tgt
                                      for x, xn in enumerate(fn.nodes))
                walks_with_prev = pat.endswith("do_extract") and any(xn["k"] == "bin" and xn["op"] == "=" and fn.expr(fn.kids(x)[1]) == "&" + tgt + "->next" for x, xn in enumerate(fn.nodes))
                if not (is_member_cursor or flows_to_cursor or walks_with_prev):
                    continue
                adv.append((e, tgt))
            for e, tgt in adv:
                obj = fn.kids(e)[0]
                otxt = fn.expr(obj)
                inst = pat + "#advance-keeps-prev"
                on_ = fn.nodes[obj]
                through_ptr = (on_["k"] == "un" and on_.get("op") == "*") or (on_["k"] == "call" and on_.get("callee", "").endswith("operator*")) or (
                    on_["k"] in ("ref", "member") and on_.get("t", "").endswith("*"))
                if through_ptr:
                    ctx.ok(rid, inst, "cursor advanced by loading through the predecessor link (%s)" % otxt, fn.where(e), fn=fn)
                    continue
                # cursor->next.load(): the predecessor link must be set to &cursor->next before
                want = "&" + otxt
                sets = [x for b, i, x, xn in fn.events() if xn["k"] == "bin" and xn["op"] == "=" and "std::atomic" in fn.nodes[fn.kids(x)[0]].get("t", "") and fn.nodes[fn.kids(x)[0]].get("t", "").endswith("*") and fn.expr(fn.kids(x)[1]) == want]
                ok = any(fn.before(s, e) for s in sets)
                ctx.check(ok, rid, inst, "predecessor link set to %s before the cursor advances" % want,
                          "the extension cursor advances along %s but the exported predecessor link (prev) is not advanced with it: erase(iterator&) later unlinks "
                          "through a stale prev and drops every extension item in front of the erased one" % otxt, fn.where(e), fn=fn)


def _bs_eval(fn, nid, env, depth=0):
    """abstract value of a bucket_state expression: dict(base, dv, dc, lock, marker) or None"""
    if depth > 12:
        return None
    n = fn.nodes[nid]
    k = n["k"]
    c = fn.kids(nid)
    if k == "member" and n.get("leaf") == "current_bucket_state":
        return dict(env.get("cache")) if env.get("cache") else None
    if k == "ref" and n.get("dk") in ("local", "param"):
        v = env.get(n["name"])
        return dict(v) if v else None
    if k in ("construct", "cast") and len(c) == 1:
        return _bs_eval(fn, c[0], env, depth + 1)
    if k == "call":
        leaf = n.get("callee", "").split("::")[-1]
        if leaf in ("locked", "clear_lock", "new_version", "dec_item_count", "inc_item_count", "set_delete_marker") and c:
            v = _bs_eval(fn, c[0], env, depth + 1)
            if v is None:
                return None
            if leaf == "locked":
                v["lock"] = 1
            elif leaf == "clear_lock":
                v["lock"] = 0
            elif leaf == "new_version":
                v["dv"] += 1
            elif leaf == "dec_item_count":
                v["dc"] -= 1
            elif leaf == "inc_item_count":
                v["dc"] += 1
            elif leaf == "set_delete_marker":
                v["marker"] = fn.expr(c[1]) if len(c) > 1 else "?"
            return v
        if leaf == "move" and c:
            return _bs_eval(fn, c[0], env, depth + 1)
    return None


def cache_coherence(ctx):
    """C11.b strengthened (K9): abstract values (base, d-version, d-count, lock, marker) of bucket_state expressions are tracked along every path of
    erase(iterator&); at every exit and at every call that writes the cache back, the cached state must equal the last state stored to the bucket with
    the lock bit cleared."""
    rid = "VHM.cache-coherence"
    ctx.rule(rid, "erase(iterator&): on every path the iterator's cached bucket state equals the last state stored to the bucket (same version and item count, "
                  "no marker) with the lock bit cleared, at every exit and before every write-back (move_to_next_bucket / reset) - abstract interpretation of the "
                  "bucket_state algebra (new_version, locked, clear_lock, dec_item_count, set_delete_marker)")
    for fn in flow._shapes(ctx, V + "erase"):
        if not any(p["name"] == "pos" for p in fn.params):
            continue
        results = []
        stack = [(fn.entry, {"cache": {"base": "S0", "dv": 0, "dc": 0, "lock": 0, "marker": None}}, None, {})]
        npaths = 0
        unlocked_store = None
        n_stores = 0
        while stack and npaths < 500:
            b, env, stored, visits = stack.pop()
            visits = dict(visits)
            visits[b] = visits.get(b, 0) + 1
            if visits[b] > 2:
                continue
            env = dict(env)
            blk = fn.blocks[b]
            ended = False
            for e in blk["elems"]:
                n = fn.nodes[e]
                if n["k"] == "decl":
                    for v in n["vars"]:
                        if "init" in v and "bucket_state" in v.get("t", ""):
                            env[v["name"]] = _bs_eval(fn, v["init"], env)
                elif n["k"] == "call":
                    leaf = n.get("callee", "").split("::")[-1]
                    c = fn.kids(e)
                    if leaf == "operator=" and n.get("member") and len(c) == 2 and "bucket_state" in n.get("callee", ""):
                        val = _bs_eval(fn, c[1], env)
                        lhs = fn.nodes[c[0]]
                        if lhs["k"] == "member" and lhs.get("leaf") == "current_bucket_state":
                            env["cache"] = val
                        elif lhs["k"] == "ref":
                            env[lhs["name"]] = val
                    a = fn.atomic(e)
                    if a and a["op"] == "store" and a["field"].endswith("bucket::state"):
                        stored = _bs_eval(fn, c[1], env)
                        if stored is None:
                            stored = {"base": "?", "dv": None, "dc": None, "lock": None, "marker": None}
                        n_stores += 1
                        if stored.get("lock") == 0:
                            unlocked_store = e
                    if leaf in ("move_to_next_bucket", "reset") and "iterator" in n.get("callee", ""):
                        results.append((e, dict(env["cache"]) if env.get("cache") else None, dict(stored) if stored else None, "write-back via " + leaf))
                        ended = True
                        break
                elif n["k"] == "return":
                    results.append((e, dict(env["cache"]) if env.get("cache") else None, dict(stored) if stored else None, "return"))
                    ended = True
                    break
            if ended:
                npaths += 1
                continue
            succ = [s for s in blk["succ"] if s is not None]
            if b == fn.exit or not succ:
                npaths += 1
                results.append((None, dict(env["cache"]) if env.get("cache") else None, dict(stored) if stored else None, "exit"))
                continue
            for s in succ:
                stack.append((s, env, stored, visits))
        n_checked = 0
        bad = None
        for e, cache, stored, how in results:
            if stored is None:
                continue  # nothing stored on this path
            n_checked += 1
            if cache is None or stored.get("dv") is None:
                bad = (e, "cached state or stored state not derivable on a path ending in %s" % how)
                break
            if stored["dv"] < 1:
                bad = (e, "a removal path ending in %s stores a state whose version is not bumped (version %+d): lock-free readers that overlap the removal validate "
                          "successfully and miss the moved / removed item" % (how, stored["dv"]))
                break
            if not (cache["base"] == stored["base"] and cache["dv"] == stored["dv"] and cache["dc"] == stored["dc"] and cache["lock"] == 0 and not cache["marker"]):
                bad = (e, "at %s the cached state is (version %+d, items %+d, lock %s) but the last state stored to the bucket is (version %+d, items %+d): the value "
                          "written back on unlock %s" % (how, cache["dv"], cache["dc"], cache["lock"], stored["dv"], stored["dc"],
                                                         "rolls the version back (readers miss a removal)" if cache["dv"] < stored["dv"] else "differs from the published state"))
                break
        ctx.check(unlocked_store is None and n_stores > 0, rid, V + "erase(iterator&)#stored-state-keeps-lock", "every state stored while the iterator stays on the bucket has the lock bit set",
                  "erase(iterator&) stores a bucket state with the lock bit cleared while the iterator remains positioned on the bucket: a waiting writer gets in, the iterator's "
                  "later unlock writes back a stale count/version (resurrected elements), and the iterator may walk freed extension items", fn.where(unlocked_store) if unlocked_store else fn.where(), fn=fn)
        ctx.check(bad is None and n_checked >= 3, rid, V + "erase(iterator&)#cache==stored", "%d paths: cached state equals the last stored state with the lock cleared" % n_checked,
                  bad[1] if bad else "fewer than three removal paths store a state (%d)" % n_checked, fn.where(bad[0]) if bad and bad[0] is not None else fn.where(), fn=fn)


def extension_only_when_full(ctx):
    rid = "VHM.extension-only-when-full"
    ctx.rule(rid, "do_grow / do_get_or_emplace: the count that is tested against bucket_item_count to decide between 'store into the bucket's array' and "
                  "'allocate an extension item' is the very count that indexes the array store on the other branch (the destination bucket's item "
                  "count): do_get_or_emplace inserts into a non-full array without scanning the extension list, so an extension item next to a non-full "
                  "array makes a present key insertable a second time")
    from .progress import _vname
    for pat in (V + "do_grow", V + "do_get_or_emplace"):
        for fn in flow._shapes(ctx, pat):
            allocs = [e for b, i, e, n_ in fn.events() if n_["k"] == "call" and n_.get("callee", "").endswith("::allocate_extension_item")]
            if not allocs:
                if pat.endswith("do_grow"):
                    ctx.broken.append("%s: no allocate_extension_item call" % pat)
                continue
            # comparisons with the constant bucket_item_count
            tests = []
            for b, blk in fn.blocks.items():
                if "cond" not in blk or b not in fn.live_blocks():
                    continue
                for x in fn.subtree(blk["cond"]):
                    xn = fn.nodes[x]
                    if xn["k"] == "bin" and xn.get("op") in ("<", ">=", "==", "!=", ">", "<="):
                        kk = fn.kids(x)
                        if len(kk) == 2:
                            for a_, o_ in ((kk[0], kk[1]), (kk[1], kk[0])):
                                if fn.nodes[o_].get("name", "").endswith("bucket_item_count") and fn.nodes[a_]["k"] == "ref":
                                    tests.append((b, x, a_))
            idx_vars = set()
            # variables that index a bucket's key array (written directly, or handed to store_item by reference)
            for o, on in enumerate(fn.nodes):
                if on["k"] == "index" and len(fn.kids(o)) == 2 and fn.nodes[fn.kids(o)[1]]["k"] == "ref":
                    base = fn.nodes[fn.kids(o)[0]]
                    if base["k"] == "member" and base.get("leaf") == "key":
                        idx_vars.add(_vname(fn.nodes[fn.kids(o)[1]]))
            for al in allocs:
                # the test that governs this allocation: the nearest bucket_item_count comparison the allocation is control dependent on
                gov = [(b, x, a_) for (b, x, a_) in tests if fn.event_reaches(x, al) or b in fn.dominators().get(fn.pos()[al][0], ())]
                if not gov:
                    ctx.bad(rid, pat + "#extension|array-full", "an extension item is allocated without a test of the bucket's item count against bucket_item_count",
                            fn.where(al), fn=fn)
                    continue
                okv = any(_vname(fn.nodes[a_]) in idx_vars for (b, x, a_) in gov)
                ctx.check(okv, rid, pat + "#extension|array-full@%d" % allocs.index(al), "the tested count is the index of the array store",
                          "the count tested against bucket_item_count (%s) is not the count that indexes the array store of the other branch (%s): items are put into "
                          "extension items although the destination array has room (or vice versa)" % (
                              ", ".join(sorted({fn.expr(a_) for (b, x, a_) in gov})), ", ".join(sorted(idx_vars))), fn.where(al), fn=fn)


def array_advance_only_outside_extension(ctx):
    """VHM.iterator-position: an iterator is 'in the extension list' exactly when its `extension` cursor is set - find() positions an iterator on
    an extension item WITHOUT touching `index`.  operator++ therefore may take the array step (++index) only when `extension` is null; a
    formulation that decides on `index` alone is correct only if every function that sets `extension` also sets index to the item count."""
    rid = "VHM.iterator-position"
    I = V + "iterator::"
    ext_null = flow.null_want(lambda f, x: f.field_of(x).endswith("iterator::extension") or (f.nodes[x]["k"] == "member" and f.nodes[x].get("leaf") == "extension"))
    # fallback (b): does find() move index to the item count when it stops on an extension item?
    find_sets_index = False
    for fn in ctx.facts.shapes(V + "find"):
        if len(fn.params) != 1:
            continue
        ext_asg = [e for b, i, e, n in fn.events() if n["k"] == "bin" and n["op"] == "=" and fn.field_of(fn.kids(e)[0]).endswith("iterator::extension")]
        idx_asg = [e for b, i, e, n in fn.events() if n["k"] == "bin" and n["op"] == "=" and fn.field_of(fn.kids(e)[0]).endswith("iterator::index") and
                   "item_count" in fn.expr(fn.kids(e)[1])]
        find_sets_index = bool(ext_asg) and all(any(fn.before(i_, x) or fn.before(x, i_) for i_ in idx_asg) for x in ext_asg) and bool(idx_asg)
    n = 0
    for fn in flow._shapes(ctx, I + "operator++"):
        incs = [e for b, i, e, nn in fn.events() if nn["k"] == "un" and nn["op"] == "++" and fn.field_of(fn.kids(e)[0]).endswith("iterator::index")]
        for e in incs:
            n += 1
            ok, path, na = flow.only_via_want(fn, e, ext_null, relicense=False)
            ctx.check((ok and na > 0) or find_sets_index, rid, I + "operator++#array-step|extension-null", "++index is taken only while the extension cursor is null",
                      "operator++ takes the array step (++index) without testing the extension cursor, but find() positions an iterator on an extension item and leaves "
                      "index untouched: ++ on such an iterator stays on the same element (yielded again) and erase(++find(k)) removes k instead of its successor",
                      fn.where(e), fn=fn, path=flow.describe_path(fn, path) if path else None)
    if n == 0:
        ctx.broken.append("vyukov iterator::operator++: no ++index found")
