"""K1 - memory-order contract.

Three independent deciders, all over constant-evaluated orders of the instantiated code:

K1.table    frozen requirement table (tables/k1_sites.json): for every (function pattern, field, op kind) the
            ordered list of required minimum orders must embed (order-preserving, live >= required) into the
            ordered list of live operations of that function on that field.  Adding operations or strengthening
            orders never fires; weakening or removing a required operation does.
K1.comment  the author's numbered synchronisation comments "(n) - this acquire-load synchronizes-with ... (m)":
            the operation that follows the comment must be at least as strong as the comment claims.
K1.recip    every reference (m) in comment (n) is reciprocated by comment (m) referring to (n).
K1.tsan     TSAN_MEMORY_ORDER(t, n): the order compiled in the TSan variant is never weaker than the production one.
"""
import json
import os
import re

from ..facts import VERIF, REPO, AnalysisBroken, order_geq, ORDER_RANK

TABLE = os.path.join(VERIF, "tables", "k1_sites.json")


def _callee_field(fn, nid):
    """for xenium functions with memory_order parameters: which shared object the call reads/writes"""
    n = fn.nodes[nid]
    kids = fn.kids(nid)
    # prefer the first argument (not the object) whose type is an atomic / concurrent_ptr
    start = 1 if n.get("member") else 0
    for k in kids[start:]:
        t = fn.nodes[k].get("t", "")
        if "concurrent_ptr" in t or "std::atomic" in t:
            return fn.field_of(k)
    if n.get("member") and kids:
        return fn.field_of(kids[0])
    return "?"


def ordered_ops(fn):
    """all memory-ordered operations of a function shape in (line, event) order:
    atomic member ops, fences, and calls/constructs of xenium functions that take a std::memory_order"""
    out = []
    seq = 0
    for b, i, e, n in fn.events():
        a = fn.atomic(e)
        if a:
            out.append({"line": n["l"], "seq": seq, "kind": a["op"] if a["kind"] != "cas" else "cas", "field": a["field"],
                        "orders": tuple(a["orders"]), "nid": e})
            seq += 1
        elif n["k"] in ("call", "construct") and n.get("mo") and n.get("xen"):
            leaf = n["callee"].split("::")[-1]
            out.append({"line": n["l"], "seq": seq, "kind": "call:" + leaf, "field": _callee_field(fn, e), "orders": tuple(n["mo"]), "nid": e})
            seq += 1
    return out


def normalise_kind(k):
    return {"compare_exchange_weak": "cas", "compare_exchange_strong": "cas"}.get(k, k)


def live_sites(facts, variant):
    """{(pat, field, kind): [site,...] sorted by source position}; site orders = weakest over shapes"""
    sites = {}
    for fn in facts.fns:
        if variant not in fn.variants:
            continue
        for op in ordered_ops(fn):
            key = (fn.pat, op["field"], normalise_kind(op["kind"]))
            pos = (fn.relfile, op["line"], op["seq"])
            d = sites.setdefault(key, {})
            s = d.get((fn.relfile, op["line"]))
            # several ops of the same key on one line: distinguish by per-line ordinal
            lk = (fn.relfile, op["line"], sum(1 for o in ordered_ops_cached(fn) if o["line"] == op["line"] and o["seq"] < op["seq"]
                                               and (o["field"], normalise_kind(o["kind"])) == (op["field"], normalise_kind(op["kind"]))))
            s = d.get(lk)
            if s is None:
                d[lk] = {"file": fn.relfile, "line": op["line"], "orders": [set([o]) for o in op["orders"]], "pat": fn.pat}
            else:
                for idx, o in enumerate(op["orders"]):
                    if idx < len(s["orders"]):
                        s["orders"][idx].add(o)
    out = {}
    for key, d in sites.items():
        out[key] = [d[k] for k in sorted(d)]
    return out


_ops_cache = {}


def ordered_ops_cached(fn):
    r = _ops_cache.get(id(fn))
    if r is None:
        r = _ops_cache[id(fn)] = ordered_ops(fn)
    return r


def weakest(orderset):
    """weakest constant order of a set; non-constant entries are returned verbatim if they are the only ones"""
    consts = [o for o in orderset if o in ORDER_RANK]
    non = sorted(o for o in orderset if o not in ORDER_RANK)
    if non:
        return non[0]
    # acquire and release are incomparable: keep both as a pseudo-order
    lo = min(ORDER_RANK[o] for o in consts)
    c = sorted(o for o in consts if ORDER_RANK[o] == lo)
    return "|".join(c)


def sat(live, req):
    """does live order (possibly 'a|b' = could be either) satisfy the requirement"""
    if req in ORDER_RANK:
        if live in ORDER_RANK:
            return order_geq(live, req)
        if "|" in live and all(p in ORDER_RANK for p in live.split("|")):
            return all(order_geq(p, req) for p in live.split("|"))
        return False  # non-constant order where a constant was required
    # required non-constant (pass-through of a caller supplied order, or a computed order)
    if live == req:
        return True
    if live == "seq_cst":
        return True
    if req.startswith("cond(") and live in ORDER_RANK:
        alts = req[5:-1].split("|")
        return all(a in ORDER_RANK and order_geq(live, a) for a in alts)
    return False


def site_orders(site):
    return [weakest(s) for s in site["orders"]]


def freeze(facts):
    """generate the requirement table from the current tree (used once, then reviewed; see tables/k1_overrides.json)"""
    table = []
    for variant in ("prod", "tsan"):
        ls = live_sites(facts, variant)
        for (pat, field, kind), sites in sorted(ls.items()):
            reqs = []
            for s in sites:
                o = site_orders(s)
                if all(x == "relaxed" for x in o):
                    continue
                reqs.append({"req": o, "line_at_freeze": s["line"]})
            # which earlier requirements are path-exclusive with this one (alternative branches: no execution performs both)?  Such
            # alternatives may later be merged into one unconditional operation without weakening anything (see check_table)
            shapes = [f for f in facts.shapes(pat) if variant in f.variants]
            if len(reqs) > 1 and shapes:
                f0 = shapes[0]
                ops = [o for o in ordered_ops_cached(f0) if o["field"] == field and normalise_kind(o["kind"]) == kind]
                by_line = {}
                for o in ops:
                    by_line.setdefault(o["line"], o["nid"])
                for i_, r_ in enumerate(reqs):
                    ex = []
                    a_ = by_line.get(r_["line_at_freeze"])
                    for j_ in range(i_):
                        b_ = by_line.get(reqs[j_]["line_at_freeze"])
                        if a_ is not None and b_ is not None and a_ != b_ and not f0.event_reaches(a_, b_) and not f0.event_reaches(b_, a_):
                            ex.append(j_)
                    if ex:
                        r_["excl"] = ex
            if reqs:
                table.append({"variant": variant, "pat": pat, "field": field, "kind": kind, "file": sites[0]["file"], "sites": reqs})
    return table


def load_table():
    with open(TABLE) as fh:
        t = json.load(fh)
    ov = {}
    p = os.path.join(VERIF, "tables", "k1_overrides.json")
    if os.path.exists(p):
        for o in json.load(open(p)):
            ov[(o["pat"], o["field"], o["kind"], o.get("index", 0))] = o
    for e in t:
        for i, s in enumerate(e["sites"]):
            o = ov.get((e["pat"], e["field"], e["kind"], i))
            if o and (o.get("variant") in (None, e["variant"])):
                s["req"] = o["req"]
                s["reason"] = o["reason"]
    return t


def _callee_closure(facts, fn, depth=3):
    """patterns of xenium functions transitively called from fn (for 'operation moved into a helper')"""
    seen = set()
    frontier = [fn]
    for _ in range(depth):
        nxt = []
        for f in frontier:
            for b, i, e, n in f.events():
                if n["k"] in ("call", "construct") and n.get("xen"):
                    c = n["callee"]
                    if c not in seen:
                        seen.add(c)
                        nxt.extend(facts.shapes(c)[:4])
                elif n["k"] == "lambda":
                    c = n["fn"]
                    if c not in seen:
                        seen.add(c)
                        nxt.extend(facts.shapes(c)[:4])
        frontier = nxt
    return seen


def _unconditional(fn, site, field, kind):
    """the live operation at this site is executed on every path from the function entry to its normal exit"""
    for o in ordered_ops_cached(fn):
        if o["line"] == site["line"] and o["field"] == field and normalise_kind(o["kind"]) == kind:
            pos = fn.pos().get(o["nid"])
            if pos is None:
                return False
            return pos[0] in fn.postdominators().get(fn.entry, ()) or pos[0] == fn.entry
    return False


def check_table(ctx, files, rid="K1.table"):
    """files: iterable of path suffixes selecting which table entries belong to the property"""
    facts = ctx.facts
    ctx.rule(rid, "every required memory order (frozen per function pattern, field, op kind) embeds into the live ordered operations "
                  "of that function in both build variants; relaxed < {acquire,release} < acq_rel < seq_cst")
    table = load_table()
    live = {v: live_sites(facts, v) for v in ("prod", "tsan")}
    n = 0
    for e in table:
        if not any(f in e["file"] for f in files):
            continue
        pat, field, kind, variant = e["pat"], e["field"], e["kind"], e["variant"]
        shapes = [f for f in facts.shapes(pat) if variant in f.variants]
        sites = None
        if not shapes:
            # the function was merged into its former callers / a lambda was replaced by a plain loop: its required operations are looked for
            # where the code now lives
            merged = [f for f in facts.merged_into(pat) if variant in f.variants]
            if merged:
                shapes = merged
                sites = []
                for mp in sorted({f.pat for f in merged}):
                    got = live[variant].get((mp, field, kind), [])
                    if not got and field.startswith("param:"):
                        # the object was a parameter of the vanished function; where the code lives now it is whatever the former argument was
                        for (p2, f2, k2), v2 in live[variant].items():
                            if p2 == mp and k2 == kind and (f2.startswith("param:") or f2.startswith("local:") or "::" not in f2):
                                got = got + v2
                    sites.extend(got)
                note = "%s no longer exists; its memory-order requirements are checked in %s" % (pat, ", ".join(sorted({f.pat for f in merged}))[:160])
                if note not in ctx.notes:
                    ctx.notes.append(note)
        if not shapes:
            raise AnalysisBroken("K1 anchor vanished: function pattern %s (%s) is not instantiated any more" % (pat, variant))
        fn0 = shapes[0]
        if sites is None:
            sites = live[variant].get((pat, field, kind), [])
        lo = [site_orders(s) for s in sites]
        j = 0
        matched_by = {}
        for i, r in enumerate(e["sites"]):
            req = r["req"]
            inst = "%s|%s|%s#%d@%s" % (pat, field, kind, i, variant)
            matched = None
            jj = j
            while jj < len(lo):
                if len(lo[jj]) >= len(req) and all(sat(lo[jj][x], req[x]) for x in range(len(req))):
                    matched = jj
                    break
                jj += 1
            n += 1
            if matched is not None:
                j = matched + 1
                matched_by[i] = matched
                ctx.ok(rid, inst, "required %s satisfied by %s at %s:%d" % ("/".join(req), "/".join(lo[matched]), sites[matched]["file"], sites[matched]["line"]),
                       "%s:%d" % (sites[matched]["file"], sites[matched]["line"]), fn=fn0)
                continue
            # alternatives merged: this requirement and an earlier one sat in alternative branches when the table was frozen (no execution
            # performed both); they may share ONE live operation if that operation is strong enough and is executed unconditionally
            merged = None
            for j_ in r.get("excl", []):
                m_ = matched_by.get(j_)
                if m_ is not None and len(lo[m_]) >= len(req) and all(sat(lo[m_][x], req[x]) for x in range(len(req))) and _unconditional(fn0, sites[m_], field, kind):
                    merged = m_
            if merged is not None:
                matched_by[i] = merged
                ctx.ok(rid, inst, "required %s satisfied by the unconditional %s at %s:%d that replaces both alternative branches" % (
                    "/".join(req), "/".join(lo[merged]), sites[merged]["file"], sites[merged]["line"]), "%s:%d" % (sites[merged]["file"], sites[merged]["line"]), fn=fn0)
                continue
            # not found in order: maybe the operation moved into a helper called from here
            helper = None
            for cp in _callee_closure(facts, fn0):
                for (p2, f2, k2), ss in live[variant].items():
                    if p2 == cp and k2 == kind and (f2 == field or f2.split("::")[-1] == field.split("::")[-1]):
                        for s in ss:
                            o = site_orders(s)
                            if len(o) >= len(req) and all(sat(o[x], req[x]) for x in range(len(req))):
                                helper = (cp, s)
            if helper:
                ctx.ok(rid, inst, "required %s satisfied in callee %s at %s:%d" % ("/".join(req), helper[0], helper[1]["file"], helper[1]["line"]),
                       "%s:%d" % (helper[1]["file"], helper[1]["line"]), fn=fn0)
                continue
            have = ", ".join("%s:%d=%s" % (s["file"].split("/")[-1], s["line"], "/".join(o)) for s, o in zip(sites, lo)) or "none"
            ctx.bad(rid, inst,
                    "%s variant: %s needs a %s %s on %s (requirement #%d of %d in this function, frozen at line %s) but the live operations are: %s"
                    % (variant, pat, "/".join(req), kind, field, i + 1, len(e["sites"]), r.get("line_at_freeze"), have),
                    "%s:%d" % (fn0.relfile, fn0.line), fn=fn0)
    return n


# ---------------------------------------------------------------------------------------------------------------
COMMENT_RE = re.compile(r"//\s*\((\d+(?:\s*,\s*\d+)*)\)\s*-\s*(.*)")
CLAIM_RE = re.compile(
    r"this\s+(acquire|release|releas|acq_rel|acq-rel|seq[-_]cst|release/acquire)[-\s]*"
    r"(load|store|CAS|cas|fence|exchange|xchg|fetch[-_ ]?add|fetch[-_ ]?sub|fetch[-_ ]?or|reload)", re.I)


def parse_comments(files):
    """[{file, line, n, text, order, opkind, refs}]"""
    out = []
    for path in files:
        rel = path.replace(REPO + "/", "")
        try:
            lines = open(path, encoding="utf-8", errors="replace").read().split("\n")
        except OSError:
            continue
        i = 0
        while i < len(lines):
            m = COMMENT_RE.search(lines[i])
            if m:
                nums = [int(x) for x in m.group(1).split(",")]   # "(2, 3) - ..." documents one operation that plays both roles
                n = nums[0]
                text = m.group(2)
                j = i + 1
                while j < len(lines) and lines[j].strip().startswith("//") and not COMMENT_RE.search(lines[j]):
                    text += " " + lines[j].strip()[2:].strip()
                    j += 1
                c = CLAIM_RE.search(text)
                order = opk = None
                if c:
                    order = c.group(1).lower().replace("-", "_")
                    order = {"releas": "release", "seq_cst": "seq_cst", "release/acquire": "cond(acquire|release)"}.get(order, order)
                    opk = c.group(2).lower()
                head = text.split(".")[0] if False else text
                refs = []
                for g in re.findall(r"\(([\d,\s]+)\)", text):
                    for x in g.split(","):
                        x = x.strip()
                        if x.isdigit():
                            refs.append(int(x))
                for n in nums:
                    out.append({"file": rel, "line": i + 1, "endline": j, "n": n, "text": text, "order": order, "opkind": opk,
                                "refs": [x for x in refs if x not in nums]})
                i = j
            else:
                i += 1
    return out


def _claim_orders(order, opk):
    """required (success) order for the op following the comment"""
    return order


def check_comments(ctx, files, rid="K1.comment", rid2="K1.recip"):
    facts = ctx.facts
    ctx.rule(rid, "the ordered operation following each numbered synchronisation comment is at least as strong as the comment claims "
                  "(live re-parse of the comments in /repo/xenium; both build variants)")
    ctx.rule(rid2, "numbered synchronisation comments reference each other reciprocally (the contract graph is closed)")
    import glob
    paths = []
    for f in sorted(glob.glob(os.path.join(REPO, "xenium", "**", "*.hpp"), recursive=True)):
        if any(s in f for s in files):
            paths.append(f)
    comments = parse_comments(paths)
    # ops by file/line
    by_file = {}
    for fn in facts.fns:
        for op in ordered_ops_cached(fn):
            for v in fn.variants:
                by_file.setdefault(fn.relfile, {}).setdefault(op["line"], []).append((v, fn, op))
    bycf = {}
    for c in comments:
        bycf.setdefault(c["file"], {}).setdefault(c["n"], []).append(c)
    for c in comments:
        inst = "%s(%d)" % (c["file"], c["n"])
        # reciprocity
        for r in c["refs"]:
            if r == c["n"]:
                continue
            tgt = bycf[c["file"]].get(r)
            if not tgt:
                ctx.bad(rid2, inst + "->(%d)" % r, "comment (%d) refers to (%d) which does not exist in %s" % (c["n"], r, c["file"]), "%s:%d" % (c["file"], c["line"]))
                continue
            if any(c["n"] in t["refs"] for t in tgt):
                ctx.ok(rid2, inst + "->(%d)" % r, "reciprocated", "%s:%d" % (c["file"], c["line"]))
            else:
                ctx.bad(rid2, inst + "->(%d)" % r, "comment (%d) names (%d) as its counterpart but (%d) does not name (%d)" % (c["n"], r, r, c["n"]),
                        "%s:%d" % (c["file"], c["line"]))
        if not c["order"]:
            continue
        # bind: first ordered op at a line in (comment end, next comment or +15]
        lines = by_file.get(c["file"], {})
        nxt = min([x["line"] for x in comments if x["file"] == c["file"] and x["line"] > c["line"]] + [c["endline"] + 15])
        bound = None
        window = [ln for ln in range(c["endline"], min(nxt - 1, c["endline"] + 8) + 1) if ln in lines]
        if window:
            bound = window[0]
        if bound is None:
            # comment with a claim but no instantiated operation after it: the operation was removed (or the code is
            # not instantiated by the matrix); the table rule decides removal, here it is a coverage note only
            ctx.note("comment %s line %d: no instantiated ordered operation follows within 15 lines" % (inst, c["line"]))
            continue
        want_kind = c["opkind"]
        cands = lines[bound]

        def kind_ok(op):
            k = normalise_kind(op["kind"])
            if want_kind in ("load", "reload"):
                return k == "load" or k.startswith("call:")
            if want_kind == "store":
                return k in ("store", "operator=") or k.startswith("call:")
            if want_kind == "cas":
                return k == "cas" or k.startswith("call:")
            if want_kind == "fence":
                return k == "fence"
            if want_kind in ("exchange", "xchg"):
                return k == "exchange"
            if want_kind.startswith("fetch"):
                return k.startswith("fetch") or k == "call:decrement_refcnt"
            return True
        sel = [x for x in cands if kind_ok(x[2])] or cands
        # robustness: if the first operation after the comment does not satisfy the claim but a later one in the window (before the
        # next numbered comment, at most 8 lines) of the claimed kind does, the comment is bound to that one (an unrelated relaxed
        # access inserted between comment and operation must not raise an alarm; removal/weakening is decided by K1.table)
        def satisfies(entry):
            v, fn, op = entry
            o = op["orders"][0]
            if want_kind == "reload" and normalise_kind(op["kind"]) == "cas" and len(op["orders"]) > 1:
                o = op["orders"][1]
            return sat(o, c["order"])
        if not all(satisfies(x) for x in sel):
            for ln in window[1:]:
                alt = [x for x in lines[ln] if kind_ok(x[2])]
                if alt and all(satisfies(x) for x in alt):
                    sel = alt
                    bound = ln
                    break
        worst = None
        for v, fn, op in sel:
            o = op["orders"][0]
            if want_kind == "reload" and normalise_kind(op["kind"]) == "cas" and len(op["orders"]) > 1:
                o = op["orders"][1]  # 'acquire-reload': the claim is about the failure order of the CAS
            good = sat(o, c["order"])
            # the failure order of an "acquire-CAS ... in case of failure" is not claimed by these comments
            if not good:
                worst = (v, fn, op, o)
                break
        if worst:
            v, fn, op, o = worst
            ctx.bad(rid, inst, "comment (%d) claims a %s-%s but the operation at line %d is %s(%s) in the %s build" % (
                c["n"], c["order"], c["opkind"], bound, op["kind"], "/".join(op["orders"]), v), "%s:%d" % (c["file"], bound), fn=fn)
        else:
            v, fn, op = sel[0]
            ctx.ok(rid, inst, "claims %s-%s; line %d has %s(%s) on %s in %d shape/variant combinations" % (
                c["order"], c["opkind"], bound, op["kind"], "/".join(op["orders"]), op["field"], len(sel)), "%s:%d" % (c["file"], bound), fn=fn)


def check_tsan_geq(ctx, files, rid="K1.tsan"):
    facts = ctx.facts
    ctx.rule(rid, "at every site the order compiled in the TSan variant (the one the test-suite runs) is not weaker than the production "
                  "order, so the suite never exercises a weaker contract than the one shipped")
    lp = live_sites(facts, "prod")
    lt = live_sites(facts, "tsan")
    for key, ps in lp.items():
        ts = lt.get(key)
        if not ts:
            continue
        if not any(f in ps[0]["file"] for f in files):
            continue
        tl = {(s["file"], s["line"]): s for s in ts}
        for s in ps:
            t = tl.get((s["file"], s["line"]))
            if not t:
                continue
            po, to = site_orders(s), site_orders(t)
            if po == to:
                continue
            inst = "%s|%s|%s" % key
            good = all(sat(to[i], po[i]) or po[i] == "relaxed" for i in range(min(len(po), len(to))))
            ctx.check(good, rid, inst, "tsan %s >= prod %s" % ("/".join(to), "/".join(po)),
                      "TSan order %s is weaker than production order %s" % ("/".join(to), "/".join(po)), "%s:%d" % (s["file"], s["line"]))
