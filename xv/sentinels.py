"""Thorough tier: checker self-check on the *current* tree.  Every must-detect mutant of selftest/mutants.json and every kept seeded change
that belongs to the property is applied to a scratch copy of the current /repo tree and the property's quick check is re-run on it (still
pure static analysis: the scratch copy is parsed, never built or executed).  A sentinel that applies but is no longer reported means the
rule that used to decide that clause has lost its grip on this tree (anchor idiom changed, instance count silently dropped): the run is
analysis-broken (exit 2), never a silent pass.  A sentinel whose patch no longer applies is recorded as inapplicable and ignored."""
import glob
import importlib.util
import json
import os
from concurrent.futures import ThreadPoolExecutor

from .facts import REPO, VERIF


def _selftest_module():
    spec = importlib.util.spec_from_file_location("xv_selftest", os.path.join(VERIF, "tools", "selftest.py"))
    mod = importlib.util.module_from_spec(spec)
    spec.loader.exec_module(mod)
    mod.SRC = REPO
    return mod


def sentinels_for(prop):
    out = []
    for m in json.load(open(os.path.join(VERIF, "selftest", "mutants.json"))):
        if prop in m.get("props", []):
            m = dict(m, props=[prop])
            if m.get("benign"):
                m.pop("rule", None)
            elif m.get("rule_for") and prop in m["rule_for"]:
                m["rule"] = m["rule_for"][prop]
            out.append(m)
    for d in sorted(glob.glob(os.path.join(VERIF, "seeded", prop + "-*"))):
        pf = os.path.join(d, "patch.diff")
        if os.path.exists(pf):
            out.append({"id": "seed-" + os.path.basename(d), "props": [prop], "patch": os.path.relpath(pf, VERIF)})
    return out


def run(ctx, jobs=4):
    st = _selftest_module()
    ms = sentinels_for(ctx.prop)
    res = {"applied": 0, "detected": 0, "silent_on_benign": 0, "inapplicable": [], "missed": [], "false_alarm_on_benign": []}
    with ThreadPoolExecutor(max_workers=jobs) as ex:
        for m, verdict, out in ex.map(st.run_one, ms):
            if verdict in ("PATCH-FAILED", "EDIT-FAILED"):
                res["inapplicable"].append(m["id"])
                continue
            res["applied"] += 1
            if m.get("benign"):
                if verdict == "ok":
                    res["silent_on_benign"] += 1
                else:
                    res["false_alarm_on_benign"].append(m["id"])
                    ctx.notes.append("benign corpus edit %s is reported on this tree (%s): the checker over-approximates here" % (m["id"], verdict))
            elif verdict == "ok" or verdict.startswith("WRONG-RULE"):
                res["detected"] += 1
            else:
                res["missed"].append(m["id"])
                ctx.broken.append("sentinel %s (a change known to break %s%s) applies to the current tree but is no longer reported (%s): "
                                  "the deciding rule has lost its anchor" % (m["id"], ctx.prop, ", rule " + m["rule"] if m.get("rule") else "", verdict))
    res["total"] = len(ms)
    return res
