"""Property -> rules mapping."""
import os

from .core import Ctx
from .rules import k1, reclaim, schemes, seqlock, vyukov, harris, queues, deque, leftright, markedptr, progress, typestate, origin, statics

ALL_FILES = [".hpp"]
RECL = ["reclamation/"]
FILES = {
    "C01": RECL + ["acquire_guard.hpp"],
    "C02": RECL,
    "C03": ALL_FILES,
    "C04": ["michael_scott_queue.hpp", "ramalhete_queue.hpp", "nikolaev_queue.hpp", "detail/nikolaev_scq.hpp"],
    "C05": ["vyukov_bounded_queue.hpp", "nikolaev_bounded_queue.hpp", "detail/nikolaev_scq.hpp"],
    "C06": ["kirsch_kfifo_queue.hpp", "kirsch_bounded_kfifo_queue.hpp"],
    "C07": ["michael_scott_queue.hpp", "ramalhete_queue.hpp", "nikolaev_queue.hpp", "nikolaev_bounded_queue.hpp", "detail/nikolaev_scq.hpp",
            "vyukov_bounded_queue.hpp", "kirsch_kfifo_queue.hpp", "kirsch_bounded_kfifo_queue.hpp"],
    "C08": ["harris_michael_list_based_set.hpp", "harris_michael_hash_map.hpp"],
    "C09": ["harris_michael_list_based_set.hpp", "harris_michael_hash_map.hpp"],
    "C10": ["vyukov_hash_map.hpp", "vyukov_hash_map_traits.hpp"],
    "C11": ["vyukov_hash_map.hpp"],
    "C12": ["chase_work_stealing_deque.hpp", "growing_circular_array.hpp", "fixed_size_circular_array.hpp"],
    "C13": ["left_right.hpp"],
    "C14": ["seqlock.hpp"],
    "C15": ["marked_ptr.hpp", "concurrent_ptr.hpp", "guard_ptr.hpp", "acquire_guard.hpp"],
    "C17": RECL,
    "C18": ["hazard_pointer.hpp", "hazard_eras.hpp"],
}


def k1_rules(ctx, prop):
    files = FILES[prop]
    statics.rules(ctx, files, floor_tls=(10 if prop == "C03" else 0))
    k1.check_table(ctx, files)
    k1.check_comments(ctx, files)
    k1.check_tsan_geq(ctx, files)


def C03(ctx):
    # (a) the orders themselves
    ctx.only = ("K1.",
                # (b) where the ordered operations sit: a plain access to an object that is handed over must be sequenced before the releasing /
                #     after the acquiring operation, a fence must lie between the accesses it orders - the publication-order rules of all containers
                "VBQ.cell-protocol", "NQ.protocol", "OWN.move-out-destroy", "MSQ.protocol", "RQ.protocol", "KF.protocol", "SCQ.settle-slot",
                "VHM.insert-publication", "VHM.marker", "VHM.grow", "VHM.reader-validation", "VHM.pool-lock", "WSD.protocol", "WSD.stable-slot",
                "SL.protocol", "LR.toggle", "LR.table", "HM.insert", "HP.protocol", "HE.protocol", "EBR.protocol", "QSBR.protocol", "STAMP.protocol", "VBQ.variant-dispatch",
                "LFRC.protocol", "HP.retire", "HE.retire", "LIST.push-relink", "HE.era-after-load")
    k1_rules(ctx, "C03")
    scheme_rules(ctx)
    queues.michael_scott(ctx)
    queues.ramalhete(ctx)
    queues.nikolaev(ctx)
    queues.vyukov_bounded(ctx)
    queues.kfifo(ctx)
    harris.insert_protocol(ctx)
    vyukov.reader_validation(ctx)
    vyukov.marker_protocol(ctx)
    vyukov.insert_publication(ctx)
    vyukov.pool_locking(ctx)
    vyukov.grow_protocol(ctx)
    deque.rules(ctx)
    deque.stable_slot(ctx)
    seqlock.rules(ctx)
    leftright.rules(ctx)
    return ("Decides (a) the memory-order contract of the source: every ordered atomic operation / fence the code relies on "
            "(frozen per function, field and operation kind, plus the author's numbered synchronisation comments re-parsed live) "
            "is present with at least the required order in the production and the TSan build variant; (b) the position of those operations: "
            "in every publish / hand-over protocol of the library the plain accesses to the object that changes hands are sequenced before the "
            "releasing and after the acquiring operation, and fences lie between the accesses they order (the order rules of all containers and reclaimers).",
            "sufficiency of the annotated happens-before edges (absence of races in all executions)")


def scheme_rules(ctx):
    schemes.hazard_pointer_rules(ctx)
    schemes.hazard_eras_rules(ctx)
    schemes.thread_block_list_rules(ctx)
    schemes.epoch_rules(ctx)
    schemes.epoch_adopt_resync(ctx)
    schemes.new_block_init_before_link(ctx)
    schemes.qsbr_rules(ctx)
    schemes.stamp_rules(ctx)
    schemes.lfrc_rules(ctx)
    schemes.list_push_rules(ctx)
    schemes.retire_list_pairing(ctx)
    schemes.deleter_rules(ctx)
    schemes.noexcept_never_exhausts(ctx)


def C01(ctx):
    ctx.only = ("K1.", "K4.reclaim-after-unlink", "HP.protocol", "HP.active-gather", "HP.delete-licensed", "HP.validate-after-protect",
                "HE.protocol", "HE.active-gather", "HE.delete-licensed", "HE.era-after-load", "HE.era-stable", "HE.exception-safety", "HE.retire", "HE.shared-slot",
                "EBR.protocol", "EBR.orphans", "EBR.constants", "EBR.epoch-slots", "EBR.activity", "EBR.scan-cursor", "EBR.adopt-resync", "QSBR.protocol", "QSBR.constants", "QSBR.activity",
                "STAMP.protocol", "STAMP.help-pending-push", "STAMP.delete-licensed", "LFRC.", "K3.", "K13.", "GUARD.")
    k1_rules(ctx, "C01")
    reclaim.reclaim_after_unlink(ctx, [".hpp"])
    ctx.floor("K4.reclaim-after-unlink", 20)
    harris.guard_deref_after_release(ctx, [".hpp"])
    ctx.floor("GUARD.deref-after-release", 300)
    origin.rules(ctx, [".hpp"], floor_guarded=1500)
    scheme_rules(ctx)
    typestate.rules(ctx)
    typestate.emptiness_predicates(ctx)
    return ("Decides structural necessary conditions of 'not destroyed while guarded', per scheme: publish-then-fence and scan order (fence, adopt abandoned "
            "nodes, gather, fence, reclaim) for hazard pointers/eras; validate-after-protect in acquire/acquire_if_equal (HP, LFRC) and era-after-load (HE); "
            "destruction control-dependent on the protection test (HP binary_search, HE era interval, stamp <= tail stamp, LFRC claim); epoch schemes: "
            "flag-fence-epoch order, three epochs, retire into the current epoch, orphan slot detached before the epoch that re-uses it is published; "
            "LFRC counter modified by RMW only; exception safety of HE slot hand-over; guard typestate of every scheme (a non-empty guard always holds its "
            "protection unit: region entry / slot / reference); every container reclaims only after a successful unlink, never dereferences a guard after it "
            "gave up its protection, and dereferences pointers read from shared memory only through the guard that acquired them (origin analysis, frozen exemptions); "
            "memory orders of all reclaimers.", "that the schemes are correct under all interleavings and weak executions (stamp-it's list protocol only through its annotated edges)")


def C02(ctx):
    ctx.only = ("K1.", "K4.reclaim-after-unlink", "HP.retire", "HP.thread-exit", "HP.delete-licensed", "HP.protocol",
                "HE.retire", "HE.thread-exit", "HE.delete-licensed", "HE.protocol", "EBR.orphans", "EBR.epoch-slots", "EBR.thread-exit", "EBR.protocol",
                "QSBR.protocol", "QSBR.thread-exit", "STAMP.", "LFRC.delete-licensed", "LFRC.thread-exit", "LFRC.protocol", "LIST.", "DEL.",
                # a protection unit that is never given back (a leaked reference count, a slot that stays published) keeps objects undestroyed for ever
                "K3.",
                # the scan threshold is a function of the registered slot count: a count that only grows (blocks re-registered with their full size on
                # adoption, less given back on exit) moves the threshold out of reach and nothing is destroyed any more (seed C02-8)
                "HP.block-init", "HE.block-init")
    k1_rules(ctx, "C02")
    reclaim.reclaim_after_unlink(ctx, [".hpp"])
    scheme_rules(ctx)
    typestate.rules(ctx)
    return ("Decides structural necessary conditions of 'destroyed exactly once by its own deleter, never leaked': deleter stored and own protection released "
            "before a node enters a retire list; every thread_data destructor hands its pending nodes over before releasing its control block; protected "
            "nodes are kept, unprotected ones deleted (exactly one branch each); lock-free list pushes re-link before every CAS attempt; adopted orphans are "
            "re-filed or deleted only by the winner of the epoch CAS and handed back otherwise; stamp-it hands unreclaimable chunks back as a whole chain; "
            "containers retire only after a successful unlink; memory orders.", "'eventually' (liveness of reclamation) and exactly-once under racing adoption")


def C04(ctx):
    ctx.only_skip = ("VBQ.", "KF.", "SCQ.threshold-thread-bound")
    k1_rules(ctx, "C04")
    reclaim.reclaim_after_unlink(ctx, FILES["C04"])
    queues.michael_scott(ctx)
    queues.ramalhete(ctx)
    queues.nikolaev(ctx)
    queues.util_pure_functions(ctx)
    queues.swing_cas_expected(ctx)
    harris.use_after_move(ctx, FILES["C04"])
    harris.guard_deref_after_release(ctx, FILES["C04"])
    harris.expected_protected_until_cas(ctx, FILES["C04"])
    origin.rules(ctx, FILES["C04"], floor_guarded=150)
    return ("Decides structural necessary conditions of the three unbounded FIFO queues: link-before-swing and head/tail hand-over rules, ticket "
            "bounds and slot invalidation of the Ramalhete queue in every configuration, sticky finalisation flag of the SCQ (finite evaluation), "
            "construct-before-publish with a finalizable enqueue, reclaim after unlink, memory orders.", "linearizability (order, uniqueness, emptiness verdicts)")


def C05(ctx):
    ctx.only_skip = ("MSQ.", "RQ.", "KF.")
    k1_rules(ctx, "C05")
    queues.vyukov_bounded(ctx)
    queues.nikolaev(ctx)
    queues.util_pure_functions(ctx)
    harris.use_after_move(ctx, FILES["C05"])
    return ("Decides the cell protocol of vyukov_bounded_queue (claim-before-touch, payload before sequence publication, sequence arithmetic by "
            "finite evaluation, weak vs strong failure conditions), construct-before-publish / destroy-before-free of nikolaev_bounded_queue, "
            "SCQ flag rule, memory orders.", "FIFO linearizability; full/empty verdict semantics; SCQ threshold arithmetic")


def C06(ctx):
    ctx.only_skip = ("MSQ.", "RQ.", "VBQ.", "NQ.", "SCQ.")
    k1_rules(ctx, "C06")
    reclaim.reclaim_after_unlink(ctx, FILES["C06"])
    queues.kfifo(ctx)
    queues.kfifo_swing_expected(ctx)
    harris.use_after_move(ctx, FILES["C06"])
    harris.guard_deref_after_release(ctx, FILES["C06"])
    harris.expected_protected_until_cas(ctx, FILES["C06"])
    origin.rules(ctx, FILES["C06"], floor_guarded=30)
    return ("Decides: ABA tag discipline of every tagged CAS, release-after-commit in push, value only after winning the slot CAS, deleted-before-"
            "advance in the unbounded variant, index field fit of the bounded variant (constructor check surviving NDEBUG), memory orders.",
            "the k-relaxation bound and emptiness verdicts")


def C07(ctx):
    ctx.only = ("K1.", "OWN.", "RQ.", "NQ.", "UAM.", "KF.protocol", "VBQ.cell-protocol", "VBQ.variant-dispatch", "K4.reclaim-after-unlink")
    k1_rules(ctx, "C07")
    queues.michael_scott(ctx)
    queues.ramalhete(ctx)
    queues.nikolaev(ctx)
    queues.vyukov_bounded(ctx)
    queues.kfifo(ctx)
    queues.destructor_walks(ctx)
    harris.use_after_move(ctx, FILES["C07"])
    return ("Decides element ownership rules: move-out then destroy exactly once in every pop path, release of unique_ptr ownership only after the "
            "raw pointer was stored, destructor ranges bounded by the container's own counters, rollback paths, no use of moved-from values.",
            "exactly-once delivery under racing pops")


def C08(ctx):
    k1_rules(ctx, "C08")
    reclaim.reclaim_after_unlink(ctx, FILES["C08"])
    harris.ordering_predicates(ctx)
    harris.erase_protocol(ctx)
    harris.insert_protocol(ctx)
    harris.find_protocol(ctx)
    harris.find_info_paired(ctx, FILES["C08"])
    harris.iterator_bucket_agreement(ctx)
    # a traversal is the observable form of "unique keys, all present keys": the iterator rules that decide duplicates / skipped buckets
    harris.iterator_rules(ctx)
    harris.use_after_move(ctx, FILES["C08"])
    harris.guard_deref_after_release(ctx, FILES["C08"])
    harris.expected_protected_until_cas(ctx, FILES["C08"])
    origin.rules(ctx, FILES["C08"], floor_guarded=300)
    return ("Decides structural necessary conditions of the Harris-Michael set/map: total order of the search predicate (exhaustive), mark-then-"
            "unlink erase protocol with per-attempt validation of the expected value, insert protocol (next before link, same expected, searched "
            "key is the inserted key, no use of a moved-from key), bucket selection agreement, reclaim after unlink, memory orders.",
            "linearizability; helping correctness in find()")


def C09(ctx):
    k1_rules(ctx, "C09")
    reclaim.reclaim_after_unlink(ctx, FILES["C09"])
    harris.ordering_predicates(ctx)
    harris.iterator_rules(ctx)
    harris.find_protocol(ctx)
    harris.find_info_paired(ctx, FILES["C09"])
    harris.iterator_bucket_agreement(ctx)
    ctx.only_skip = ("HM.insert",)
    harris.erase_protocol(ctx)
    harris.use_after_move(ctx, FILES["C09"])
    harris.guard_deref_after_release(ctx, FILES["C09"])
    harris.expected_protected_until_cas(ctx, FILES["C09"])
    origin.rules(ctx, FILES["C09"], floor_guarded=300)
    return ("Decides: the re-scan predicate is a total order (exhaustive finite evaluation); iterators obtain successors through acquire_if_equal, "
            "keep prev paired with the save guard, copy the key before re-finding; erase(iterator) guards the successor before unlinking.",
            "weak consistency of traversals relative to the update history")


def C10(ctx):
    k1_rules(ctx, "C10")
    reclaim.reclaim_after_unlink(ctx, FILES["C10"])
    ctx.floor("K4.reclaim-after-unlink", 3)
    vyukov.reader_validation(ctx)
    vyukov.marker_protocol(ctx)
    vyukov.insert_publication(ctx)
    vyukov.locking(ctx)
    vyukov.pool_locking(ctx)
    vyukov.grow_protocol(ctx)
    vyukov.hash_agreement(ctx)
    vyukov.extension_only_when_full(ctx)
    queues.util_pure_functions(ctx)
    # the iterator's bucket lock is the same lock the updates serialise on: a lock released twice / dropped by an iterator operation lets two
    # updates of one bucket overlap (seed C10-9), so the iterator-lock rules are part of C10 as well
    ctx.only_skip = ("SCQ.",)
    vyukov.iterator_rules(ctx)
    vyukov.cursor_prev_pairing(ctx)
    vyukov.array_advance_only_outside_extension(ctx)
    vyukov.cache_coherence(ctx)
    harris.guard_deref_after_release(ctx, FILES["C10"])
    origin.rules(ctx, FILES["C10"], floor_guarded=20)
    return ("Decides structural necessary conditions of the vyukov_hash_map protocol: reclaim only after a successful extraction; every return "
            "of the lock-free reader passes a version re-validation after its last shared read and the delete-marker test; writer side marker/"
            "key/value/version order and marker value; bucket lock pairing; grow ordering and index mapping; memory orders.",
            "linearizability; torn/ABA-free optimistic reads under all schedules")


def C11(ctx):
    ctx.only = ("K1.", "VHM.iterator-lock", "VHM.iterator-position", "VHM.marker", "VHM.lock-pairing", "VHM.cache-coherence", "VHM.reader-validation")
    k1_rules(ctx, "C11")
    # removals through the iterator are observed by lock-free readers only through the version re-validation
    vyukov.reader_validation(ctx)
    vyukov.marker_protocol(ctx)
    vyukov.locking(ctx)
    vyukov.iterator_rules(ctx)
    vyukov.cursor_prev_pairing(ctx)
    vyukov.array_advance_only_outside_extension(ctx)
    vyukov.cache_coherence(ctx)
    return ("Decides the iterator lock typestate (including special members), coherence of the cached bucket state after erase(iterator&), "
            "paired position fields extension/prev, and the marker protocol on the iterator's removal paths.",
            "traversal completeness under concurrent writers on other buckets")


def C17(ctx):
    ctx.only = ("K1.", "TBL.", "HP.thread-exit", "HP.block-init", "HP.active-gather", "HE.thread-exit", "HE.block-init", "HE.active-gather",
                "EBR.thread-exit", "EBR.block-init", "EBR.activity", "EBR.scan-cursor", "EBR.orphans", "EBR.epoch-slots", "EBR.adopt-resync", "QSBR.thread-exit", "QSBR.block-init", "QSBR.activity",
                "STAMP.thread-exit", "LFRC.thread-exit", "LIST.",
                # safety / conservation across thread exit: the scans adopt abandoned nodes before gathering, orphans are re-filed, ...
                "HP.protocol", "HE.protocol", "EBR.protocol", "QSBR.protocol", "STAMP.protocol", "STAMP.handback-chain")
    k1_rules(ctx, "C17")
    scheme_rules(ctx)
    return ("Decides: control blocks are adopted (acquire-CAS from free) before a new one is allocated and released (release-store) at thread exit after the "
            "hand-over of pending nodes; adopted blocks are re-initialised before first use (HP/HE free-list rebuild and counter balance, HE activate after "
            "initialise, EBR/QSBR local epoch reset); predicates evaluated on foreign blocks contain the activity conjunct so exited threads never block "
            "reclamation; thread-local LFRC free lists return to the global list; memory orders.", "boundedness of bookkeeping as a measured quantity; C01/C02 across record reuse under races")


def C18(ctx):
    ctx.only = ("K1.", "HP.slots", "HE.slots", "HE.exception-safety", "HE.shared-slot", "HP.block-init", "HE.block-init")
    k1_rules(ctx, "C18")
    scheme_rules(ctx)
    ctx.only = ctx.only + ("K3.", "K13.")
    typestate.rules(ctx, schemes=("hazard_pointer", "hazard_eras"))
    return ("Decides: slot allocation takes need_more_* only on the null-hint edge and dereferences the hint afterwards; the static strategies report "
            "exhaustion by throwing the documented exception on every path; released slots are re-linked into the hint list (HE only when the last guard "
            "of the era leaves); reset releases; a new hazard era is allocated before the shared one is given up (exception safety); adopted blocks rebuild "
            "the free list; slot typestate of every guard member (slot held iff ptr non-null, no slot taken for an empty guard, consistent at every throwing "
            "allocation) by path-sensitive abstract interpretation; memory orders.", "'at least K simultaneously' as a count over all guard operation sequences")


def C12(ctx):
    k1_rules(ctx, "C12")
    deque.rules(ctx)
    deque.stable_slot(ctx)
    deque.growth_bound(ctx)
    deque.index_width(ctx)
    deque.grow_exception_safety(ctx)
    ctx.only_skip = ("SCQ.",)
    queues.util_pure_functions(ctx)       # growing_circular_array selects its bucket with find_last_bit_set
    return ("Decides the structural half of the Chase-Lev deque: publish order, decrement/restore-or-commit pairing in try_pop, last-item CAS, "
            "thief read-before-CAS, mask kind discipline and (by exhaustive finite evaluation of the loop-free index arithmetic) that grow() re-indexes "
            "the live range with the same mapping as get_entry from every top offset; 64-bit monotone indices; allocation before bookkeeping in grow(); "
            "memory orders incl. the four seq_cst sites.",
            "linearizability of owner/thief histories")


def C13(ctx):
    k1_rules(ctx, "C13")
    leftright.rules(ctx)
    return ("Decides the finite reader/writer table agreement of left_right (which instance each side touches for each indicator value), the order "
            "wait(next) < version store < wait(current) with its index arithmetic, arrive-before-indicator-load in readers, functor calls under the "
            "writer mutex, and the six memory orders (five seq_cst).", "linearizability of reads vs updates; that the two waits suffice")


def C15(ctx):
    k1_rules(ctx, "C15")
    markedptr.rules(ctx)
    typestate.rules(ctx)
    typestate.emptiness_predicates(ctx)
    ctx.only = ("K1.", "K7.", "K3.", "K13.", "HE.shared-slot", "HE.era-stable", "GUARD.acquire-snapshot")
    schemes.hazard_eras_rules(ctx)
    schemes.acquire_snapshot_whole_value(ctx)
    return ("Decides: marked_ptr round trip bit by bit for every mark width 1..32 and three upper/lower splits (abstract interpretation of the -O1 IR), "
            "concurrent_ptr order pass-through (frozen as param:order in the contract table); guard_ptr typestate for all six schemes and all special members, "
            "acquire, acquire_if_equal, reset, reclaim by path-sensitive abstract interpretation with symbolic nullness (protection units taken == change "
            "of 'guard non-empty', moved-from guards end empty, 'return false' only with an empty guard).",
            "the snapshot claim of guard_ptr::acquire under a concurrent writer")


def C16(ctx):
    progress.rules(ctx)
    vyukov.reader_validation(ctx)
    queues.swing_cas_expected(ctx)
    queues.kfifo_swing_expected(ctx)
    # operations documented lock-free must not be routed to a blocking sibling / must help instead of waiting
    ctx.only = ("K11.", "VHM.reader-validation", "Q.swing-expected", "KF.field-fit", "KF.segment-step", "VBQ.variant-dispatch", "VBQ.weak-returns-when-behind",
                "STAMP.help-pending-push")
    queues.vyukov_bounded(ctx)
    schemes.stamp_rules(ctx)
    # of the k-FIFO rules only the index-width rule is a progress condition (an index that does not fit its field makes push/pop spin forever)
    ctx.only_skip = ("KF.aba", "KF.protocol", "OWN.", "KF.region-predicate", "KF.tail-advance", "KF.scan-complete", "KF.tail-never-onto-head", "KF.region-snapshot")
    queues.kfifo(ctx)
    return ("Decides: no wait construct (spin on a lock bit / flag / pending write, mutex acquisition) is reachable in the resolved call graph from any "
            "operation documented lock-free or wait-free, any guard operation of any reclaimer, seqlock::load with more than one slot or left_right::read; "
            "quiet cycles whose every condition is invariant under solo execution (a loop that cannot come out differently the next time round); the weak "
            "bounded-queue operations return whenever their cell is behind (finite execution); helping swings expect a snapshot of the field they swing; "
            "the bounded k-FIFO index fits its field (a solo livelock otherwise).", "a numeric bound on solo steps; loops whose termination rests on data-structure invariants")


def C14(ctx):
    k1_rules(ctx, "C14")
    seqlock.rules(ctx)
    return ("Decides the structural half of the seqlock contract: copy coverage of sizeof(T) for every instantiated T, protocol order of "
            "load/store/update, reader/writer slot-index agreement, memory orders.", "absence of torn reads under all interleavings")


PROPS = {"C13": C13, "C15": C15, "C16": C16, "C12": C12, "C04": C04, "C05": C05, "C06": C06, "C07": C07, "C14": C14, "C11": C11, "C08": C08, "C09": C09, "C01": C01, "C02": C02, "C03": C03, "C10": C10, "C17": C17, "C18": C18}


def run(prop, tier, facts=None):
    if prop not in PROPS:
        print("unknown property", prop)
        return 2
    ctx = Ctx(prop, tier, facts)
    expl, notdec = PROPS[prop](ctx)
    if tier == "thorough" and not ctx.violations and not os.environ.get("XV_NO_SENTINELS"):
        from . import sentinels
        ctx.sentinels = sentinels.run(ctx)
    return ctx.finish(expl, assumptions=[
        "clang 14 front end: AST, constant evaluation and CFG construction are trusted",
        "the instantiation matrix (/verif/inst + /repo/test TUs) instantiates the code paths of interest; a function that is "
        "never instantiated is not analysed",
    ], not_decided=notdec)
