"""Property -> rules mapping."""
from .core import Ctx
from .rules import k1, reclaim

ALL_FILES = [".hpp"]
RECL = ["reclamation/"]
FILES = {
    "C01": RECL + ["acquire_guard.hpp"],
    "C02": RECL,
    "C03": ALL_FILES,
    "C04": ["michael_scott_queue.hpp", "ramalhete_queue.hpp", "nikolaev_queue.hpp", "detail/nikolaev_scq.hpp"],
    "C05": ["vyukov_bounded_queue.hpp", "nikolaev_bounded_queue.hpp", "detail/nikolaev_scq.hpp"],
    "C06": ["kirsch_kfifo_queue.hpp", "kirsch_bounded_kfifo_queue.hpp"],
    "C07": ["michael_scott_queue.hpp", "ramalhete_queue.hpp", "nikolaev_queue.hpp", "nikolaev_bounded_queue.hpp", "detail/nikolaev_scq.hpp",
            "vyukov_bounded_queue.hpp", "kirsch_kfifo_queue.hpp", "kirsch_bounded_kfifo_queue.hpp"],
    "C08": ["harris_michael_list_based_set.hpp", "harris_michael_hash_map.hpp"],
    "C09": ["harris_michael_list_based_set.hpp", "harris_michael_hash_map.hpp"],
    "C10": ["vyukov_hash_map.hpp", "vyukov_hash_map_traits.hpp"],
    "C11": ["vyukov_hash_map.hpp"],
    "C12": ["chase_work_stealing_deque.hpp", "growing_circular_array.hpp", "fixed_size_circular_array.hpp"],
    "C13": ["left_right.hpp"],
    "C14": ["seqlock.hpp"],
    "C15": ["marked_ptr.hpp", "concurrent_ptr.hpp", "guard_ptr.hpp", "acquire_guard.hpp"],
    "C17": RECL,
    "C18": ["hazard_pointer.hpp", "hazard_eras.hpp"],
}


def k1_rules(ctx, prop):
    files = FILES[prop]
    k1.check_table(ctx, files)
    k1.check_comments(ctx, files)
    k1.check_tsan_geq(ctx, files)


def C03(ctx):
    k1_rules(ctx, "C03")
    return ("Decides the memory-order contract of the source: every ordered atomic operation / fence the code relies on "
            "(frozen per function, field and operation kind, plus the author's numbered synchronisation comments re-parsed live) "
            "is present with at least the required order in the production and the TSan build variant.",
            "sufficiency of the annotated happens-before edges (absence of races in all executions)")


def C01(ctx):
    k1_rules(ctx, "C01")
    reclaim.reclaim_after_unlink(ctx, [".hpp"])
    ctx.floor("K4.reclaim-after-unlink", 20)
    return ("Decides structural necessary conditions of safe reclamation.", "that the schemes are correct under all interleavings")


def C10(ctx):
    k1_rules(ctx, "C10")
    reclaim.reclaim_after_unlink(ctx, FILES["C10"])
    ctx.floor("K4.reclaim-after-unlink", 3)
    return ("Decides structural necessary conditions of the vyukov_hash_map protocol.", "linearizability")


PROPS = {"C03": C03, "C01": C01, "C10": C10}


def run(prop, tier):
    if prop not in PROPS:
        print("unknown property", prop)
        return 2
    ctx = Ctx(prop, tier)
    expl, notdec = PROPS[prop](ctx)
    return ctx.finish(expl, assumptions=[
        "clang 14 front end: AST, constant evaluation and CFG construction are trusted",
        "the instantiation matrix (/verif/inst + /repo/test TUs) instantiates the code paths of interest; a function that is "
        "never instantiated is not analysed",
    ], not_decided=notdec)
