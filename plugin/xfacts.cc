// xfacts: clang-14 frontend plugin that dumps, for every function *instantiation* whose body is
// spelled under the configured source root (default /repo/xenium), its clang::CFG as a linear,
// SSA-like list of nodes with resolved callees, field declarations, constant-evaluated
// memory orders and integer constants.  The plugin knows nothing about xenium's rules.
//
// Usage: clang++ -fsyntax-only -fplugin=xfacts.so -Xclang -add-plugin -Xclang xfacts
//          -Xclang -plugin-arg-xfacts -Xclang out=<file> [-Xclang -plugin-arg-xfacts -Xclang root=<dir>]
//
// Output: JSON lines.  {"kind":"fn",...} one per *shape* (record with template arguments erased),
// {"kind":"rec",...} one per class shape, {"kind":"summary",...} last.
#include "clang/AST/ASTConsumer.h"
#include "clang/AST/ASTContext.h"
#include "clang/AST/Comment.h"
#include "clang/AST/DeclTemplate.h"
#include "clang/AST/ExprCXX.h"
#include "clang/AST/RawCommentList.h"
#include "clang/AST/RecordLayout.h"
#include "clang/AST/RecursiveASTVisitor.h"
#include "clang/Analysis/CFG.h"
#include "clang/Basic/SourceManager.h"
#include "clang/Frontend/CompilerInstance.h"
#include "clang/Frontend/FrontendPluginRegistry.h"
#include "llvm/ADT/DenseMap.h"
#include "llvm/ADT/StringExtras.h"
#include "llvm/Support/raw_ostream.h"

#include <map>
#include <set>
#include <sstream>
#include <string>
#include <vector>

using namespace clang;

namespace {

std::string jsonEscape(llvm::StringRef s) {
  std::string o;
  o.reserve(s.size() + 2);
  for (unsigned char c : s) {
    switch (c) {
    case '"': o += "\\\""; break;
    case '\\': o += "\\\\"; break;
    case '\n': o += "\\n"; break;
    case '\r': o += "\\r"; break;
    case '\t': o += "\\t"; break;
    default:
      if (c < 0x20) {
        char buf[8];
        snprintf(buf, sizeof buf, "\\u%04x", c);
        o += buf;
      } else
        o += (char)c;
    }
  }
  return o;
}
std::string q(llvm::StringRef s) { return "\"" + jsonEscape(s) + "\""; }

const char *moName(int64_t v) {
  switch (v) {
  case 0: return "relaxed";
  case 1: return "consume";
  case 2: return "acquire";
  case 3: return "release";
  case 4: return "acq_rel";
  case 5: return "seq_cst";
  }
  return "?";
}

struct Options {
  std::string out;
  std::string root = "/repo/xenium";
};

class Extractor {
public:
  Extractor(ASTContext &C, const Options &O) : Ctx(C), SM(C.getSourceManager()), Opt(O) {}

  ASTContext &Ctx;
  SourceManager &SM;
  const Options &Opt;
  std::map<std::string, size_t> shapeIndex; // shape text -> index into shapes
  std::vector<std::string> shapes;
  std::vector<std::vector<std::string>> shapeInsts;
  std::set<std::string> recShapes;
  std::vector<std::string> recOut;
  llvm::DenseMap<const CXXRecordDecl *, std::string> lambdaNames;
  unsigned nFunctions = 0, nCfgFail = 0;

  // ---------------------------------------------------------------- names
  bool inRoot(SourceLocation L) {
    if (L.isInvalid()) return false;
    SourceLocation S = SM.getSpellingLoc(SM.getExpansionLoc(L));
    PresumedLoc P = SM.getPresumedLoc(S);
    if (P.isInvalid()) return false;
    llvm::StringRef F(P.getFilename());
    return F.contains(Opt.root);
  }
  std::string fileOf(SourceLocation L) {
    PresumedLoc P = SM.getPresumedLoc(SM.getExpansionLoc(L));
    if (P.isInvalid()) return "";
    std::string f = P.getFilename();
    // normalise /repo/./xenium -> /repo/xenium
    size_t p;
    while ((p = f.find("/./")) != std::string::npos) f.erase(p, 2);
    return f;
  }
  unsigned lineOf(SourceLocation L) {
    if (L.isInvalid()) return 0;
    return SM.getExpansionLineNumber(L);
  }

  void assignLambdaNames(const FunctionDecl *Encl, const std::string &enclPat) {
    struct V : RecursiveASTVisitor<V> {
      std::vector<const LambdaExpr *> found;
      bool shouldVisitTemplateInstantiations() const { return false; }
      bool VisitLambdaExpr(LambdaExpr *L) {
        found.push_back(L);
        return true;
      }
    } v;
    if (!Encl->hasBody()) return;
    v.TraverseStmt(Encl->getBody());
    if (auto *CD = dyn_cast<CXXConstructorDecl>(Encl))
      for (auto *I : CD->inits())
        if (I->getInit()) v.TraverseStmt(I->getInit());
    unsigned k = 0;
    for (auto *L : v.found) {
      const CXXRecordDecl *R = L->getLambdaClass();
      if (!lambdaNames.count(R)) lambdaNames[R] = enclPat + "::(lambda" + std::to_string(k) + ")";
      ++k;
    }
  }

  std::string recordSimpleName(const RecordDecl *R) {
    if (auto *CR = dyn_cast<CXXRecordDecl>(R)) {
      if (CR->isLambda()) {
        auto it = lambdaNames.find(CR);
        if (it != lambdaNames.end()) return "\x01" + it->second; // absolute marker
        // find enclosing function and number its lambdas
        const DeclContext *DC = CR->getDeclContext();
        while (DC && !isa<FunctionDecl>(DC)) DC = DC->getParent();
        if (DC) {
          const FunctionDecl *F = cast<FunctionDecl>(DC);
          assignLambdaNames(F, patName(F));
          it = lambdaNames.find(CR);
          if (it != lambdaNames.end()) return "\x01" + it->second;
        }
        return "(lambda)";
      }
    }
    if (R->getIdentifier()) return R->getName().str();
    if (auto *TD = R->getTypedefNameForAnonDecl()) return TD->getName().str();
    return "(anon)";
  }

  std::string ctxName(const DeclContext *DC) {
    std::vector<std::string> parts;
    for (; DC; DC = DC->getParent()) {
      if (auto *NS = dyn_cast<NamespaceDecl>(DC)) {
        if (NS->isInline() || NS->isAnonymousNamespace()) continue;
        parts.push_back(NS->getName().str());
      } else if (auto *R = dyn_cast<RecordDecl>(DC)) {
        std::string n = recordSimpleName(R);
        if (!n.empty() && n[0] == '\x01') {
          parts.push_back(n.substr(1));
          break; // absolute
        }
        parts.push_back(n);
      } else if (auto *F = dyn_cast<FunctionDecl>(DC)) {
        parts.push_back(fnSimpleName(F));
      } else if (auto *E = dyn_cast<EnumDecl>(DC)) {
        if (E->isScoped() && E->getIdentifier()) parts.push_back(E->getName().str());
      }
    }
    std::string s;
    for (auto it = parts.rbegin(); it != parts.rend(); ++it) {
      if (!s.empty()) s += "::";
      s += *it;
    }
    return s;
  }

  std::string fnSimpleName(const FunctionDecl *F) {
    if (auto *C = dyn_cast<CXXConstructorDecl>(F)) return recordLeaf(C->getParent());
    if (auto *D = dyn_cast<CXXDestructorDecl>(F)) return "~" + recordLeaf(D->getParent());
    if (isa<CXXConversionDecl>(F)) return "operator conv";
    if (F->getIdentifier()) return F->getName().str();
    return F->getDeclName().getAsString();
  }
  std::string recordLeaf(const RecordDecl *R) {
    std::string n = recordSimpleName(R);
    if (!n.empty() && n[0] == '\x01') {
      n = n.substr(1);
      size_t p = n.rfind("::");
      return p == std::string::npos ? n : n.substr(p + 2);
    }
    return n;
  }

  std::string patName(const NamedDecl *D) {
    if (auto *R = dyn_cast<RecordDecl>(D)) {
      std::string n = recordSimpleName(R);
      if (!n.empty() && n[0] == '\x01') return n.substr(1);
      std::string c = ctxName(R->getDeclContext());
      return c.empty() ? n : c + "::" + n;
    }
    std::string leaf;
    if (auto *F = dyn_cast<FunctionDecl>(D))
      leaf = fnSimpleName(F);
    else if (D->getIdentifier())
      leaf = D->getName().str();
    else
      leaf = D->getDeclName().getAsString();
    std::string c = ctxName(D->getDeclContext());
    return c.empty() ? leaf : c + "::" + leaf;
  }

  std::string fullName(const NamedDecl *D) {
    std::string s;
    llvm::raw_string_ostream os(s);
    PrintingPolicy PP(Ctx.getLangOpts());
    PP.SuppressUnwrittenScope = true;
    PP.TerseOutput = true;
    D->getNameForDiagnostic(os, PP, true);
    os.flush();
    return s;
  }

  // erased type summary
  std::string typeSummary(QualType T, unsigned depth = 0) {
    if (T.isNull()) return "?";
    T = T.getCanonicalType();
    std::string cv;
    if (T.isConstQualified()) cv = "const ";
    const Type *Ty = T.getTypePtr();
    if (auto *RT = Ty->getAs<ReferenceType>()) return typeSummary(RT->getPointeeType(), depth) + "&";
    if (auto *PT = dyn_cast<PointerType>(Ty)) return cv + typeSummary(PT->getPointeeType(), depth) + "*";
    if (auto *RT = dyn_cast<RecordType>(Ty)) {
      std::string s = cv + patName(RT->getDecl());
      if (depth < 2)
        if (auto *S = dyn_cast<ClassTemplateSpecializationDecl>(RT->getDecl())) {
          llvm::StringRef pn(s);
          // keep the first type argument of a few wrappers: it says what the atomic / pointer holds
          if (pn.endswith("std::atomic") || pn.endswith("concurrent_ptr") || pn.endswith("marked_ptr") ||
              pn.endswith("guard_ptr") || pn.endswith("unique_ptr")) {
            const TemplateArgumentList &AL = S->getTemplateArgs();
            if (AL.size() > 0 && AL[0].getKind() == TemplateArgument::Type)
              s += "<" + typeSummary(AL[0].getAsType(), depth + 1) + ">";
          }
        }
      return s;
    }
    if (auto *ET = dyn_cast<EnumType>(Ty)) return cv + patName(ET->getDecl());
    if (auto *BT = dyn_cast<BuiltinType>(Ty)) return cv + BT->getName(PrintingPolicy(Ctx.getLangOpts())).str();
    if (auto *AT = dyn_cast<ConstantArrayType>(Ty))
      return typeSummary(AT->getElementType(), depth) + "[" + llvm::toString(AT->getSize(), 10, false) + "]";
    if (isa<ArrayType>(Ty)) return typeSummary(cast<ArrayType>(Ty)->getElementType(), depth) + "[]";
    if (isa<FunctionType>(Ty)) return "fn";
    if (isa<MemberPointerType>(Ty)) return "memptr";
    return cv + "?";
  }

  // ---------------------------------------------------------------- per-function emission
  struct FnCtx {
    llvm::DenseMap<const Stmt *, int> ids;
    std::vector<std::string> nodes; // JSON text per node
    llvm::DenseMap<const VarDecl *, int> vids; // distinct local variables of the same name (different scopes) are numbered apart
    std::map<std::string, int> nameCount;
  };

  int vidOf(FnCtx &F, const VarDecl *VD) {
    VD = VD->getCanonicalDecl();
    auto it = F.vids.find(VD);
    if (it != F.vids.end()) return it->second;
    int v = ++F.nameCount[VD->getNameAsString()];
    F.vids[VD] = v;
    return v;
  }

  const Expr *strip(const Expr *E) {
    while (E) {
      if (auto *P = dyn_cast<ParenExpr>(E)) E = P->getSubExpr();
      else if (auto *C = dyn_cast<ImplicitCastExpr>(E)) E = C->getSubExpr();
      else if (auto *C = dyn_cast<ExprWithCleanups>(E)) E = C->getSubExpr();
      else if (auto *C = dyn_cast<MaterializeTemporaryExpr>(E)) E = C->getSubExpr();
      else if (auto *C = dyn_cast<CXXBindTemporaryExpr>(E)) E = C->getSubExpr();
      else if (auto *C = dyn_cast<ConstantExpr>(E)) E = C->getSubExpr();
      else if (auto *C = dyn_cast<SubstNonTypeTemplateParmExpr>(E)) E = C->getReplacement();
      else if (auto *C = dyn_cast<CXXDefaultArgExpr>(E)) E = C->getExpr();
      else if (auto *C = dyn_cast<CXXDefaultInitExpr>(E)) E = C->getExpr();
      else if (auto *C = dyn_cast<FullExpr>(E)) E = C->getSubExpr();
      else break;
    }
    return E;
  }

  bool evalInt(const Expr *E, llvm::APSInt &out) {
    if (!E || E->isValueDependent() || E->isTypeDependent()) return false;
    QualType T = E->getType();
    if (T.isNull() || !(T->isIntegralOrEnumerationType())) return false;
    if (E->isGLValue()) {
      // only constant variables
      const Expr *S = strip(E);
      auto *DR = dyn_cast_or_null<DeclRefExpr>(S);
      if (!DR) return false;
      auto *VD = dyn_cast<VarDecl>(DR->getDecl());
      if (!VD || !VD->getType().isConstQualified() || isa<ParmVarDecl>(VD)) return false;
    }
    Expr::EvalResult R;
    if (!E->EvaluateAsInt(R, Ctx, Expr::SE_NoSideEffects)) return false;
    if (!R.Val.isInt()) return false;
    out = R.Val.getInt();
    return true;
  }

  std::string moOf(const Expr *A) {
    llvm::APSInt v;
    if (evalInt(A, v)) return moName(v.getExtValue());
    Expr::EvalResult R;
    if (!A->isValueDependent() && A->EvaluateAsRValue(R, Ctx) && R.Val.isInt()) return moName(R.Val.getInt().getExtValue());
    const Expr *S = strip(A);
    if (auto *DR = dyn_cast_or_null<DeclRefExpr>(S)) {
      if (isa<ParmVarDecl>(DR->getDecl())) return "param:" + DR->getDecl()->getNameAsString();
      return "var:" + DR->getDecl()->getNameAsString();
    }
    if (auto *CO = dyn_cast_or_null<ConditionalOperator>(S))
      return "cond(" + moOf(CO->getTrueExpr()) + "|" + moOf(CO->getFalseExpr()) + ")";
    return "?";
  }

  bool isMemoryOrderType(QualType T) {
    T = T.getNonReferenceType().getCanonicalType().getUnqualifiedType();
    if (auto *ET = T->getAs<EnumType>()) {
      auto *ED = ET->getDecl();
      return ED->getName() == "memory_order" && ED->isInStdNamespace();
    }
    return false;
  }

  int emit(FnCtx &F, const Stmt *S0) {
    if (!S0) return -1;
    const Stmt *S = S0;
    if (auto *E = dyn_cast<Expr>(S0)) S = strip(E);
    if (!S) return -1;
    auto it = F.ids.find(S);
    if (it != F.ids.end()) {
      int known = it->second;
      if (S != S0) F.ids[S0] = known;
      return known;
    }
    std::vector<int> kids;
    std::string a; // attributes
    std::string kind;
    auto addKid = [&](const Stmt *K) { kids.push_back(emit(F, K)); };
    unsigned line = lineOf(S->getBeginLoc());

    if (auto *E = dyn_cast<Expr>(S)) {
      llvm::APSInt v;
      bool isLit = isa<IntegerLiteral>(E) || isa<CXXBoolLiteralExpr>(E) || isa<CharacterLiteral>(E);
      if (!isa<LambdaExpr>(E) && evalInt(E, v)) {
        a += ",\"v\":" + llvm::toString(v, 10);
        if (isLit) kind = "lit";
      }
    }

    if (kind == "lit") {
    } else if (auto *CE = dyn_cast<CallExpr>(S)) {
      kind = "call";
      const FunctionDecl *FD = CE->getDirectCallee();
      if (FD) {
        a += ",\"callee\":" + q(patName(FD));
        if (auto *MD = dyn_cast<CXXMethodDecl>(FD)) {
          a += ",\"cls\":" + q(typeSummary(Ctx.getRecordType(MD->getParent())));
          if (MD->isStatic()) a += ",\"static\":1";
        }
        if (inRoot(FD->getLocation())) a += ",\"xen\":1";
        if (FD->isNoReturn()) a += ",\"noreturn\":1";
        if (const TemplateArgumentList *TAL = FD->getTemplateSpecializationArgs()) {
          // non-type template arguments of the callee (integral / bool), e.g. enqueue<false, true>
          std::string ta;
          bool any = false;
          for (const TemplateArgument &TA : TAL->asArray()) {
            if (!ta.empty()) ta += ",";
            if (TA.getKind() == TemplateArgument::Integral) {
              ta += llvm::toString(TA.getAsIntegral(), 10);
              any = true;
            } else
              ta += "\"_\"";
          }
          if (any) a += ",\"targs\":[" + ta + "]";
        }
      } else {
        a += ",\"callee\":\"?\"";
      }
      bool member = false;
      if (auto *MC = dyn_cast<CXXMemberCallExpr>(CE)) {
        member = true;
        addKid(MC->getImplicitObjectArgument());
      } else if (auto *OC = dyn_cast<CXXOperatorCallExpr>(CE)) {
        (void)OC;
        if (FD && isa<CXXMethodDecl>(FD) && !cast<CXXMethodDecl>(FD)->isStatic()) member = true; // arg0 is object
      } else if (!FD) {
        addKid(CE->getCallee());
        a += ",\"indirect\":1";
      }
      if (member) a += ",\"member\":1";
      std::string mo;
      unsigned ai = 0;
      for (const Expr *A : CE->arguments()) {
        addKid(A);
        if (isMemoryOrderType(A->getType())) {
          if (!mo.empty()) mo += ",";
          mo += q(moOf(A));
        }
        ++ai;
      }
      if (!mo.empty()) a += ",\"mo\":[" + mo + "]";
    } else if (auto *CE = dyn_cast<CXXConstructExpr>(S)) {
      kind = "construct";
      a += ",\"callee\":" + q(patName(CE->getConstructor()));
      if (inRoot(CE->getConstructor()->getLocation())) a += ",\"xen\":1";
      if (CE->getConstructor()->isCopyConstructor()) a += ",\"copy\":1";
      if (CE->getConstructor()->isMoveConstructor()) a += ",\"move\":1";
      if (CE->isElidable()) a += ",\"elidable\":1";
      std::string mo;
      for (const Expr *A : CE->arguments()) {
        addKid(A);
        if (isMemoryOrderType(A->getType())) {
          if (!mo.empty()) mo += ",";
          mo += q(moOf(A));
        }
      }
      if (!mo.empty()) a += ",\"mo\":[" + mo + "]";
    } else if (auto *BO = dyn_cast<BinaryOperator>(S)) {
      kind = "bin";
      a += ",\"op\":" + q(BO->getOpcodeStr());
      addKid(BO->getLHS());
      addKid(BO->getRHS());
    } else if (auto *UO = dyn_cast<UnaryOperator>(S)) {
      kind = "un";
      a += ",\"op\":" + q(UnaryOperator::getOpcodeStr(UO->getOpcode()));
      if (UO->isPostfix()) a += ",\"post\":1";
      addKid(UO->getSubExpr());
    } else if (auto *DR = dyn_cast<DeclRefExpr>(S)) {
      kind = "ref";
      const ValueDecl *D = DR->getDecl();
      const char *dk = "other";
      if (isa<ParmVarDecl>(D)) dk = "param";
      else if (auto *VD = dyn_cast<VarDecl>(D)) dk = VD->isLocalVarDecl() ? (VD->isStaticLocal() ? "staticlocal" : "local") : "global";
      else if (isa<FunctionDecl>(D)) dk = "func";
      else if (isa<EnumConstantDecl>(D)) dk = "enumconst";
      else if (isa<FieldDecl>(D)) dk = "field";
      else if (isa<BindingDecl>(D)) dk = "binding";
      a += ",\"dk\":" + q(dk);
      if (isa<ParmVarDecl>(D) || (isa<VarDecl>(D) && cast<VarDecl>(D)->isLocalVarDecl())) {
        a += ",\"name\":" + q(D->getNameAsString());
        a += ",\"vid\":" + std::to_string(vidOf(F, cast<VarDecl>(D)));
      } else
        a += ",\"name\":" + q(patName(D));
      if (auto *VD = dyn_cast<VarDecl>(D))
        if (VD->getTLSKind() != VarDecl::TLS_None) a += ",\"tls\":1";
    } else if (auto *ME = dyn_cast<MemberExpr>(S)) {
      kind = "member";
      const ValueDecl *D = ME->getMemberDecl();
      a += ",\"name\":" + q(patName(D));
      a += ",\"leaf\":" + q(D->getNameAsString());
      if (ME->isArrow()) a += ",\"arrow\":1";
      if (isa<CXXMethodDecl>(D)) a += ",\"method\":1";
      addKid(ME->getBase());
    } else if (isa<CXXThisExpr>(S)) {
      kind = "this";
    } else if (isa<CXXNullPtrLiteralExpr>(S) || isa<GNUNullExpr>(S)) {
      kind = "null";
    } else if (auto *SL = dyn_cast<clang::StringLiteral>(S)) {
      kind = "str";
      if (SL->isAscii()) a += ",\"s\":" + q(SL->getString().substr(0, 80));
    } else if (isa<FloatingLiteral>(S)) {
      kind = "flit";
    } else if (auto *CE = dyn_cast<ExplicitCastExpr>(S)) {
      kind = "cast";
      const char *ck = "c";
      if (isa<CXXStaticCastExpr>(CE)) ck = "static";
      else if (isa<CXXReinterpretCastExpr>(CE)) ck = "reinterpret";
      else if (isa<CXXConstCastExpr>(CE)) ck = "const";
      else if (isa<CXXFunctionalCastExpr>(CE)) ck = "functional";
      a += ",\"ck\":" + q(ck);
      addKid(CE->getSubExpr());
    } else if (auto *NE = dyn_cast<CXXNewExpr>(S)) {
      kind = "new";
      a += ",\"what\":" + q(typeSummary(NE->getAllocatedType()));
      if (NE->getNumPlacementArgs() > 0) a += ",\"placement\":1";
      if (NE->isArray()) {
        a += ",\"array\":1";
        // the element count is recorded beside (not among) the children: rules index the children as placement args + initialiser
        if (auto AS = NE->getArraySize()) {
          if (*AS) a += ",\"asize\":" + std::to_string(emit(F, *AS));
        }
      }
      for (unsigned i = 0; i < NE->getNumPlacementArgs(); ++i) addKid(NE->getPlacementArg(i));
      a += ",\"nplace\":" + std::to_string(NE->getNumPlacementArgs());
      if (NE->getInitializer()) addKid(NE->getInitializer());
    } else if (auto *DE = dyn_cast<CXXDeleteExpr>(S)) {
      kind = "delete";
      if (DE->isArrayForm()) a += ",\"array\":1";
      addKid(DE->getArgument());
    } else if (auto *CO = dyn_cast<AbstractConditionalOperator>(S)) {
      kind = "cond";
      addKid(CO->getCond());
      addKid(CO->getTrueExpr());
      addKid(CO->getFalseExpr());
    } else if (auto *AS = dyn_cast<ArraySubscriptExpr>(S)) {
      kind = "index";
      addKid(AS->getBase());
      addKid(AS->getIdx());
    } else if (auto *LE = dyn_cast<LambdaExpr>(S)) {
      kind = "lambda";
      a += ",\"fn\":" + q(patName(LE->getCallOperator()));
      for (const Expr *I : LE->capture_inits()) addKid(I);
    } else if (auto *TE = dyn_cast<CXXThrowExpr>(S)) {
      kind = "throw";
      if (TE->getSubExpr()) {
        a += ",\"what\":" + q(typeSummary(TE->getSubExpr()->getType()));
        addKid(TE->getSubExpr());
      }
    } else if (auto *RS = dyn_cast<ReturnStmt>(S)) {
      kind = "return";
      if (RS->getRetValue()) addKid(RS->getRetValue());
    } else if (auto *DS = dyn_cast<DeclStmt>(S)) {
      kind = "decl";
      std::string vars;
      for (const Decl *D : DS->decls()) {
        if (auto *VD = dyn_cast<VarDecl>(D)) {
          if (!vars.empty()) vars += ",";
          vars += "{\"name\":" + q(VD->getNameAsString()) + ",\"t\":" + q(typeSummary(VD->getType()));
          vars += ",\"vid\":" + std::to_string(vidOf(F, VD));
          if (VD->isStaticLocal()) vars += ",\"static\":1";
          if (VD->getInit()) {
            int k = emit(F, VD->getInit());
            vars += ",\"init\":" + std::to_string(k);
            kids.push_back(k);
          }
          vars += "}";
        }
      }
      a += ",\"vars\":[" + vars + "]";
    } else if (auto *IL = dyn_cast<InitListExpr>(S)) {
      kind = "initlist";
      for (const Expr *I : IL->inits()) addKid(I);
    } else if (auto *UE = dyn_cast<UnaryExprOrTypeTraitExpr>(S)) {
      kind = "sizeof";
      a += ",\"tk\":" + std::to_string((int)UE->getKind());
      if (UE->isArgumentType()) a += ",\"of\":" + q(typeSummary(UE->getArgumentType()));
    } else if (auto *TE = dyn_cast<CXXTemporaryObjectExpr>(S)) {
      (void)TE;
      kind = "construct";
    } else if (auto *PD = dyn_cast<CXXPseudoDestructorExpr>(S)) {
      kind = "pseudodtor";
      addKid(PD->getBase());
    } else if (auto *SV = dyn_cast<CXXScalarValueInitExpr>(S)) {
      (void)SV;
      kind = "zeroinit";
    } else if (isa<ImplicitValueInitExpr>(S)) {
      kind = "zeroinit";
    } else if (auto *OV = dyn_cast<OpaqueValueExpr>(S)) {
      kind = "opaque";
      if (OV->getSourceExpr()) addKid(OV->getSourceExpr());
    } else if (auto *SE = dyn_cast<StmtExpr>(S)) {
      (void)SE;
      kind = "stmtexpr";
    } else if (auto *AE = dyn_cast<AtomicExpr>(S)) {
      kind = "atomicbuiltin";
      for (const Expr *A : llvm::make_range(AE->getSubExprs(), AE->getSubExprs() + AE->getNumSubExprs())) addKid(A);
    } else {
      kind = std::string("stmt:") + S->getStmtClassName();
      for (const Stmt *C : S->children())
        if (C) addKid(C);
    }
    if (auto *E = dyn_cast<Expr>(S)) a += ",\"t\":" + q(typeSummary(E->getType()));

    int id = (int)F.nodes.size();
    F.nodes.emplace_back();
    std::string kidsS;
    for (size_t i = 0; i < kids.size(); ++i) {
      if (i) kidsS += ",";
      kidsS += std::to_string(kids[i]);
    }
    F.nodes[id] = "{\"k\":" + q(kind) + ",\"l\":" + std::to_string(line) + a + ",\"c\":[" + kidsS + "]}";
    F.ids[S] = id;
    if (S != S0) F.ids[S0] = id;
    return id;
  }

  int emitSynthetic(FnCtx &F, const std::string &json) {
    int id = (int)F.nodes.size();
    F.nodes.push_back(json);
    return id;
  }

  std::string docOf(const FunctionDecl *FD) {
    std::string doc;
    const FunctionDecl *P = FD->getTemplateInstantiationPattern();
    if (!P) P = FD;
    if (auto *FT = P->getDescribedFunctionTemplate()) {
      // member template: look through to the member template in the class template pattern
      (void)FT;
    }
    for (const FunctionDecl *R : P->redecls()) {
      if (const RawComment *RC = Ctx.getRawCommentForDeclNoCache(R)) doc += RC->getRawText(SM).str() + "\n";
      if (auto *FT = R->getDescribedFunctionTemplate())
        if (const RawComment *RC = Ctx.getRawCommentForDeclNoCache(FT)) doc += RC->getRawText(SM).str() + "\n";
    }
    return doc;
  }

  void processFunction(const FunctionDecl *FD) {
    if (!FD->doesThisDeclarationHaveABody()) return;
    if (FD->isDependentContext()) return;
    if (FD->isDefaulted() && !FD->getBody()) return;
    const Stmt *Body = FD->getBody();
    if (!Body) return;
    if (!inRoot(FD->getLocation()) && !inRoot(Body->getBeginLoc())) return;

    std::string pat = patName(FD);
    assignLambdaNames(FD, pat);

    CFG::BuildOptions BO;
    BO.setAllAlwaysAdd();
    BO.AddImplicitDtors = true;
    BO.AddInitializers = true;
    BO.AddTemporaryDtors = false;
    BO.AddEHEdges = false;
    BO.PruneTriviallyFalseEdges = true;
    std::unique_ptr<CFG> G = CFG::buildCFG(FD, const_cast<Stmt *>(Body), &Ctx, BO);
    ++nFunctions;
    if (!G) {
      ++nCfgFail;
      return;
    }
    FnCtx F;
    std::string blocks;
    bool firstB = true;
    for (const CFGBlock *B : *G) {
      if (!B) continue;
      std::string elems;
      bool firstE = true;
      auto pushElem = [&](int id) {
        if (id < 0) return;
        if (!firstE) elems += ",";
        firstE = false;
        elems += std::to_string(id);
      };
      int lastId = -1;
      for (const CFGElement &E : *B) {
        switch (E.getKind()) {
        case CFGElement::Statement:
        case CFGElement::Constructor:
        case CFGElement::CXXRecordTypedCall: {
          const Stmt *S = E.castAs<CFGStmt>().getStmt();
          bool known = F.ids.count(S);
          int id = emit(F, S);
          // stripped wrappers map to an already listed node: list each node once per block position
          if (known && id == lastId) break;
          if (id != lastId) pushElem(id);
          lastId = id;
          break;
        }
        case CFGElement::Initializer: {
          const CXXCtorInitializer *I = E.castAs<CFGInitializer>().getInitializer();
          int k = I->getInit() ? emit(F, I->getInit()) : -1;
          std::string what = I->isAnyMemberInitializer() ? patName(I->getAnyMember())
                                                         : (I->getBaseClass() ? "base:" + typeSummary(QualType(I->getBaseClass(), 0)) : "delegating");
          std::string leaf = I->isAnyMemberInitializer() ? I->getAnyMember()->getNameAsString() : "";
          int id = emitSynthetic(F, "{\"k\":\"init\",\"l\":" + std::to_string(lineOf(I->getSourceLocation())) + ",\"name\":" + q(what) +
                                        ",\"leaf\":" + q(leaf) + ",\"c\":[" + (k >= 0 ? std::to_string(k) : "") + "]}");
          pushElem(id);
          lastId = id;
          break;
        }
        case CFGElement::AutomaticObjectDtor: {
          auto D = E.castAs<CFGAutomaticObjDtor>();
          const VarDecl *VD = D.getVarDecl();
          int id = emitSynthetic(F, "{\"k\":\"autodtor\",\"l\":" + std::to_string(lineOf(D.getTriggerStmt() ? D.getTriggerStmt()->getEndLoc() : SourceLocation())) +
                                        ",\"name\":" + q(VD->getNameAsString()) + ",\"t\":" + q(typeSummary(VD->getType())) + ",\"c\":[]}");
          pushElem(id);
          lastId = id;
          break;
        }
        case CFGElement::DeleteDtor: {
          break; // the delete expression itself is a node
        }
        case CFGElement::BaseDtor: {
          auto D = E.castAs<CFGBaseDtor>();
          int id = emitSynthetic(F, "{\"k\":\"basedtor\",\"l\":0,\"t\":" + q(typeSummary(D.getBaseSpecifier()->getType())) + ",\"c\":[]}");
          pushElem(id);
          lastId = id;
          break;
        }
        case CFGElement::MemberDtor: {
          auto D = E.castAs<CFGMemberDtor>();
          int id = emitSynthetic(F, "{\"k\":\"memberdtor\",\"l\":0,\"name\":" + q(patName(D.getFieldDecl())) + ",\"t\":" +
                                        q(typeSummary(D.getFieldDecl()->getType())) + ",\"c\":[]}");
          pushElem(id);
          lastId = id;
          break;
        }
        default: break;
        }
      }
      std::string succ;
      bool firstS = true;
      for (auto SI = B->succ_begin(); SI != B->succ_end(); ++SI) {
        if (!firstS) succ += ",";
        firstS = false;
        const CFGBlock *SB = SI->getReachableBlock();
        if (SB) succ += std::to_string(SB->getBlockID());
        else if (SI->getPossiblyUnreachableBlock()) succ += "-" + std::to_string(SI->getPossiblyUnreachableBlock()->getBlockID() + 1); // pruned edge
        else succ += "null";
      }
      std::string term;
      if (const Stmt *T = B->getTerminatorStmt()) {
        std::string tk = T->getStmtClassName();
        if (auto *BOp = dyn_cast<BinaryOperator>(T)) tk = BOp->getOpcodeStr().str();
        term = ",\"term\":" + q(tk) + ",\"tl\":" + std::to_string(lineOf(T->getBeginLoc()));
        if (const Stmt *C = B->getTerminatorCondition(true)) {
          int cid = emit(F, C);
          term += ",\"cond\":" + std::to_string(cid);
        }
        if (B->getTerminator().getKind() != CFGTerminator::StmtBranch) term += ",\"termkind\":" + std::to_string((int)B->getTerminator().getKind());
      }
      std::string label;
      if (const Stmt *L = B->getLabel()) {
        if (auto *CS = dyn_cast<CaseStmt>(L)) {
          llvm::APSInt v;
          label = ",\"label\":\"case\"";
          if (evalInt(CS->getLHS(), v)) label += ",\"labelv\":" + llvm::toString(v, 10);
        } else if (isa<DefaultStmt>(L))
          label = ",\"label\":\"default\"";
        else if (auto *LS = dyn_cast<LabelStmt>(L))
          label = ",\"label\":" + q(std::string("label:") + LS->getName());
      }
      if (B->hasNoReturnElement()) label += ",\"noreturn\":1";
      if (!firstB) blocks += ",";
      firstB = false;
      blocks += "{\"id\":" + std::to_string(B->getBlockID()) + ",\"elems\":[" + elems + "],\"succ\":[" + succ + "]" + term + label + "}";
    }
    std::string nodes;
    for (size_t i = 0; i < F.nodes.size(); ++i) {
      if (i) nodes += ",";
      nodes += F.nodes[i];
    }
    std::string params;
    for (const ParmVarDecl *P : FD->parameters()) {
      if (!params.empty()) params += ",";
      params += "{\"name\":" + q(P->getNameAsString()) + ",\"t\":" + q(typeSummary(P->getType()));
      {
        QualType PT = P->getType().getNonReferenceType();
        if (PT->isPointerType()) PT = PT->getPointeeType();
        if (!PT->isIncompleteType() && !PT->isDependentType() && !PT->isFunctionType() && !PT->isVoidType()) {
          params += ",\"sz\":" + std::to_string(Ctx.getTypeSizeInChars(PT).getQuantity()) + ",\"al\":" +
                    std::to_string(Ctx.getTypeAlignInChars(PT).getQuantity());
        }
      }
      params += "}";
    }
    std::string cls;
    if (auto *MD = dyn_cast<CXXMethodDecl>(FD)) {
      cls = ",\"cls\":" + q(patName(MD->getParent()));
      if (MD->isStatic()) cls += ",\"static\":1";
      if (MD->isConst()) cls += ",\"const\":1";
    }
    std::string extra;
    if (auto *CD = dyn_cast<CXXConstructorDecl>(FD)) {
      extra += ",\"ctor\":1";
      if (CD->isCopyConstructor()) extra += ",\"copyctor\":1";
      if (CD->isMoveConstructor()) extra += ",\"movector\":1";
    }
    if (isa<CXXDestructorDecl>(FD)) extra += ",\"dtor\":1";
    if (auto *MD = dyn_cast<CXXMethodDecl>(FD)) {
      if (MD->isCopyAssignmentOperator()) extra += ",\"copyassign\":1";
      if (MD->isMoveAssignmentOperator()) extra += ",\"moveassign\":1";
    }
    if (auto *FPT = FD->getType()->getAs<FunctionProtoType>())
      if (FPT->isNothrow()) extra += ",\"nothrow\":1";
    SourceLocation DefLoc = Body->getBeginLoc();
    if (const FunctionDecl *P = FD->getTemplateInstantiationPattern()) {
      const FunctionDecl *PD = nullptr;
      if (P->hasBody(PD) && PD && fileOf(PD->getBeginLoc()) == fileOf(Body->getBeginLoc())) DefLoc = PD->getBeginLoc();
    } else if (fileOf(FD->getBeginLoc()) == fileOf(Body->getBeginLoc()))
      DefLoc = FD->getBeginLoc();
    std::string shape = "\"pat\":" + q(pat) + cls + extra + ",\"file\":" + q(fileOf(Body->getBeginLoc())) + ",\"line\":" +
                        std::to_string(lineOf(DefLoc)) + ",\"endline\":" + std::to_string(lineOf(Body->getEndLoc())) +
                        ",\"ret\":" + q(typeSummary(FD->getReturnType())) + ",\"params\":[" + params + "],\"entry\":" +
                        std::to_string(G->getEntry().getBlockID()) + ",\"exit\":" + std::to_string(G->getExit().getBlockID()) + ",\"blocks\":[" +
                        blocks + "],\"nodes\":[" + nodes + "]";
    auto it = shapeIndex.find(shape);
    size_t idx;
    if (it == shapeIndex.end()) {
      idx = shapes.size();
      shapeIndex[shape] = idx;
      shapes.push_back(shape + ",\"doc\":" + q(docOf(FD)));
      shapeInsts.emplace_back();
    } else
      idx = it->second;
    if (shapeInsts[idx].size() < 40) shapeInsts[idx].push_back(fullName(FD));
    else if (shapeInsts[idx].size() == 40) shapeInsts[idx].push_back("...");
  }

  void processRecord(const CXXRecordDecl *R) {
    if (!R->isCompleteDefinition() || R->isDependentContext() || R->isLambda()) return;
    if (!inRoot(R->getLocation())) return;
    if (R->isInvalidDecl()) return;
    std::string s = "\"pat\":" + q(patName(R)) + ",\"file\":" + q(fileOf(R->getLocation())) + ",\"line\":" + std::to_string(lineOf(R->getLocation()));
    const ASTRecordLayout &L = Ctx.getASTRecordLayout(R);
    s += ",\"size\":" + std::to_string(L.getSize().getQuantity()) + ",\"align\":" + std::to_string(L.getAlignment().getQuantity());
    std::string fields;
    unsigned fi = 0;
    for (const FieldDecl *FDl : R->fields()) {
      if (!fields.empty()) fields += ",";
      QualType FT = FDl->getType();
      std::string sz = "0", al = "0";
      if (!FT->isIncompleteType() && !FT->isDependentType()) {
        sz = std::to_string(Ctx.getTypeSizeInChars(FT).getQuantity());
        al = std::to_string(Ctx.getTypeAlignInChars(FT).getQuantity());
      }
      fields += "{\"name\":" + q(FDl->getNameAsString()) + ",\"t\":" + q(typeSummary(FT)) + ",\"off\":" + std::to_string(L.getFieldOffset(fi) / 8) +
                ",\"size\":" + sz + ",\"align\":" + al;
      if (FDl->isBitField()) fields += ",\"bits\":" + std::to_string(FDl->getBitWidthValue(Ctx));
      fields += "}";
      ++fi;
    }
    s += ",\"fields\":[" + fields + "]";
    std::string consts;
    for (const Decl *D : R->decls()) {
      if (auto *VD = dyn_cast<VarDecl>(D)) {
        if (!VD->isStaticDataMember()) continue;
        const VarDecl *Def = VD;
        const Expr *Init = VD->getAnyInitializer(Def);
        if (!Init || Init->isValueDependent()) continue;
        if (!VD->getType()->isIntegralOrEnumerationType()) continue;
        if (!VD->getType().isConstQualified()) continue;
        const APValue *V = Def->evaluateValue();
        if (V && V->isInt()) {
          if (!consts.empty()) consts += ",";
          consts += q(VD->getNameAsString()) + ":" + llvm::toString(V->getInt(), 10);
        }
      }
    }
    s += ",\"consts\":{" + consts + "}";
    std::string bases;
    for (const CXXBaseSpecifier &B : R->bases()) {
      if (!bases.empty()) bases += ",";
      bases += q(typeSummary(B.getType()));
    }
    s += ",\"bases\":[" + bases + "]";
    std::string flags;
    flags += ",\"copy_ctor\":" + std::string(R->hasSimpleCopyConstructor() || R->hasUserDeclaredCopyConstructor() ? "1" : "0");
    if (recShapes.insert(s).second) recOut.push_back("{\"kind\":\"rec\"," + s + ",\"full\":" + q(fullName(R)) + "}");
  }

  void write() {
    std::error_code EC;
    llvm::raw_fd_ostream OS(Opt.out, EC);
    if (EC) {
      llvm::errs() << "xfacts: cannot write " << Opt.out << ": " << EC.message() << "\n";
      return;
    }
    for (size_t i = 0; i < shapes.size(); ++i) {
      OS << "{\"kind\":\"fn\"," << shapes[i] << ",\"insts\":[";
      for (size_t j = 0; j < shapeInsts[i].size(); ++j) {
        if (j) OS << ",";
        OS << q(shapeInsts[i][j]);
      }
      OS << "]}\n";
    }
    for (auto &r : recOut) OS << r << "\n";
    OS << "{\"kind\":\"summary\",\"functions\":" << nFunctions << ",\"shapes\":" << shapes.size() << ",\"cfgfail\":" << nCfgFail
       << ",\"records\":" << recOut.size() << "}\n";
  }
};

class Visitor : public RecursiveASTVisitor<Visitor> {
public:
  explicit Visitor(Extractor &X) : X(X) {}
  bool shouldVisitTemplateInstantiations() const { return true; }
  bool shouldVisitImplicitCode() const { return false; }
  bool VisitFunctionDecl(FunctionDecl *FD) {
    if (FD->isThisDeclarationADefinition()) X.processFunction(FD);
    return true;
  }
  bool VisitLambdaExpr(LambdaExpr *LE) {
    if (auto *M = LE->getCallOperator())
      if (!M->isDependentContext() && !seen.count(M)) {
        seen.insert(M);
        X.processFunction(M);
      }
    // generic lambda: the call operator is a template, visit its instantiations
    if (const CXXRecordDecl *R = LE->getLambdaClass())
      if (!R->isDependentContext())
        if (FunctionTemplateDecl *FT = R->getDependentLambdaCallOperator())
          for (FunctionDecl *S : FT->specializations())
            if (S->isThisDeclarationADefinition() && !S->isDependentContext() && !seen.count(S)) {
              seen.insert(S);
              X.processFunction(S);
              TraverseStmt(S->getBody()); // nested lambdas
            }
    return true;
  }
  bool VisitCXXRecordDecl(CXXRecordDecl *R) {
    X.processRecord(R);
    return true;
  }
  Extractor &X;
  std::set<const Decl *> seen;
};

class Consumer : public ASTConsumer {
public:
  explicit Consumer(Options O) : Opt(std::move(O)) {}
  void HandleTranslationUnit(ASTContext &Ctx) override {
    if (Ctx.getDiagnostics().hasErrorOccurred()) {
      llvm::errs() << "xfacts: translation unit has errors, no facts written\n";
      return;
    }
    Extractor X(Ctx, Opt);
    Visitor V(X);
    V.TraverseDecl(Ctx.getTranslationUnitDecl());
    X.write();
  }
  Options Opt;
};

class Action : public PluginASTAction {
protected:
  std::unique_ptr<ASTConsumer> CreateASTConsumer(CompilerInstance &, llvm::StringRef) override {
    return std::make_unique<Consumer>(Opt);
  }
  bool ParseArgs(const CompilerInstance &, const std::vector<std::string> &args) override {
    for (auto &a : args) {
      if (a.rfind("out=", 0) == 0) Opt.out = a.substr(4);
      else if (a.rfind("root=", 0) == 0) Opt.root = a.substr(5);
    }
    if (Opt.out.empty()) {
      llvm::errs() << "xfacts: missing out=<file>\n";
      return false;
    }
    return true;
  }
  PluginASTAction::ActionType getActionType() override { return AddAfterMainAction; }
  Options Opt;
};

} // namespace

static FrontendPluginRegistry::Add<Action> X("xfacts", "dump CFG facts for xenium");
