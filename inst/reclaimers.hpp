// reclaimer configurations of the instantiation matrix
#pragma once
#include <xenium/reclamation/generic_epoch_based.hpp>
#include <xenium/reclamation/hazard_eras.hpp>
#include <xenium/reclamation/hazard_pointer.hpp>
#include <xenium/reclamation/lock_free_ref_count.hpp>
#include <xenium/reclamation/quiescent_state_based.hpp>
#include <xenium/reclamation/stamp_it.hpp>

namespace inst {
namespace r = xenium::reclamation;
namespace p = xenium::policy;
using hp_static = r::hazard_pointer<>::with<p::allocation_strategy<r::hp_allocation::static_strategy<3>>>;
using hp_dynamic = r::hazard_pointer<>::with<p::allocation_strategy<r::hp_allocation::dynamic_strategy<3>>>;
using he_static = r::hazard_eras<>::with<p::allocation_strategy<r::he_allocation::static_strategy<3>>>;
using he_dynamic = r::hazard_eras<>::with<p::allocation_strategy<r::he_allocation::dynamic_strategy<3>>>;
using ebr = r::epoch_based<>;
using nebr = r::new_epoch_based<>;
using debra = r::debra<>;
using ebr_eager_n2_always = r::generic_epoch_based<>::with<p::scan_frequency<4>, p::scan<r::scan::n_threads<2>>, p::abandon<r::abandon::always>,
                                                         p::region_extension<r::region_extension::eager>>;
using ebr_lazy_all_thresh = r::generic_epoch_based<>::with<p::scan_frequency<1>, p::scan<r::scan::all_threads>,
                                                         p::abandon<r::abandon::when_exceeds_threshold<4>>,
                                                         p::region_extension<r::region_extension::lazy>>;
using qsbr = r::quiescent_state_based;
using stamp = r::stamp_it;
using lfrc = r::lock_free_ref_count<>;
using lfrc_tl = r::lock_free_ref_count<>::with<p::thread_local_free_list_size<8>>;

// apply F<R>::run() for every configuration
template <template <class> class F>
void for_all_reclaimers() {
  F<hp_static>::run();
  F<hp_dynamic>::run();
  F<he_static>::run();
  F<he_dynamic>::run();
  F<ebr>::run();
  F<nebr>::run();
  F<debra>::run();
  F<ebr_eager_n2_always>::run();
  F<ebr_lazy_all_thresh>::run();
  F<qsbr>::run();
  F<stamp>::run();
  F<lfrc>::run();
  F<lfrc_tl>::run();
}
// reclaimers usable by containers that need mark bits / do not support LFRC
template <template <class> class F>
void for_all_but_lfrc() {
  F<hp_static>::run();
  F<hp_dynamic>::run();
  F<he_static>::run();
  F<he_dynamic>::run();
  F<ebr>::run();
  F<debra>::run();
  F<ebr_eager_n2_always>::run();
  F<ebr_lazy_all_thresh>::run();
  F<qsbr>::run();
  F<stamp>::run();
}
} // namespace inst
