// instantiation matrix: seqlock for element sizes that are / are not multiples of the word size, small alignments, all slot counts
#include <xenium/seqlock.hpp>
#include <cstdint>

namespace {
template <unsigned N, unsigned A>
struct alignas(A) blob {
  unsigned char b[N];
};
template <class T, unsigned S>
void use() {
  xenium::seqlock<T, xenium::policy::slots<S>> l;
  T v{};
  l.store(v);
  v = l.load();
  l.update([](T& x) { (void)x; });
  xenium::seqlock<T, xenium::policy::slots<S>> l2(v);
  (void)l2;
}
template <class T>
void all_slots() {
  use<T, 1>();
  use<T, 2>();
  use<T, 3>();
  use<T, 4>();
  use<T, 8>();
}
} // namespace

void seqlock_matrix() {
  all_slots<blob<9, 1>>();
  all_slots<blob<12, 4>>();
  all_slots<blob<16, 8>>();
  all_slots<blob<20, 2>>();
  all_slots<blob<24, 8>>();
  all_slots<blob<40, 8>>();
  all_slots<blob<17, 1>>();
  all_slots<blob<64, 16>>();
  struct three_ints { int a, b, c; };
  all_slots<three_ints>();
}
