// thorough tier: parameter sweeps for the rules that are decided per instantiation from compiler-evaluated constants / layouts
//  - ramalhete_queue: step_size / max_idx for every entries_per_node in 1..600 and the products of the candidate steps
//  - seqlock: copy coverage for every element size 9..80 with every admissible alignment, 1 and 2 slots
#include <xenium/ramalhete_queue.hpp>
#include <xenium/reclamation/generic_epoch_based.hpp>
#include <xenium/seqlock.hpp>

#include <cstddef>
#include <utility>

namespace {
namespace p = xenium::policy;
using R = xenium::reclamation::epoch_based<>;

template <std::size_t N>
unsigned rq_probe() {
  // constructing the queue instantiates the (private) class constants step_size and max_idx
  xenium::ramalhete_queue<int*, p::reclaimer<R>, p::entries_per_node<N>> q;
  return sizeof(q) != 0 ? 1u : 0u;
}
template <std::size_t Base, std::size_t... I>
unsigned rq_sweep(std::index_sequence<I...>) {
  const unsigned all[] = {rq_probe<Base + I>()...};
  return all[0];
}

template <unsigned N, unsigned A>
struct alignas(A) blob {
  unsigned char b[N];
};
template <class T, unsigned S>
void sl_use() {
  xenium::seqlock<T, p::slots<S>> l;
  T v{};
  l.store(v);
  v = l.load();
  l.update([](T& x) { (void)x; });
}
template <unsigned N>
void sl_size() {
  sl_use<blob<N, 1>, 1>();
  sl_use<blob<N, 1>, 2>();
  if constexpr (N % 2 == 0) {
    sl_use<blob<N, 2>, 1>();
  }
  if constexpr (N % 4 == 0) {
    sl_use<blob<N, 4>, 2>();
  }
  if constexpr (N % 8 == 0) {
    sl_use<blob<N, 8>, 1>();
  }
  if constexpr (N % 16 == 0) {
    sl_use<blob<N, 16>, 3>();
  }
}
template <unsigned... I>
void sl_sweep(std::integer_sequence<unsigned, I...>) {
  using fn = void (*)();
  const fn all[] = {&sl_size<I + 9>...};
  for (fn f : all) {
    f();
  }
}
} // namespace

unsigned thorough_sweep() {
  unsigned n = rq_sweep<1>(std::make_index_sequence<600>{});
  n += rq_probe<11 * 13>() + rq_probe<11 * 13 * 17>() + rq_probe<11 * 13 * 17 * 19>() + rq_probe<11 * 13 * 17 * 19 * 23>() +
       rq_probe<1024>() + rq_probe<2048>() + rq_probe<4096>() + rq_probe<1001>() + rq_probe<46189 * 2>();
  sl_sweep(std::make_integer_sequence<unsigned, 72>{});
  return n;
}
