// instantiation matrix: harris-michael set/map, vyukov_hash_map (five storage specialisations), chase deque, left_right
#include "reclaimers.hpp"
#include <xenium/chase_work_stealing_deque.hpp>
#include <xenium/detail/fixed_size_circular_array.hpp>
#include <xenium/detail/growing_circular_array.hpp>
#include <xenium/harris_michael_hash_map.hpp>
#include <xenium/harris_michael_list_based_set.hpp>
#include <xenium/left_right.hpp>
#include <xenium/vyukov_hash_map.hpp>
#include <string>

namespace {
namespace p = xenium::policy;

template <class M, class K, class V>
void use_hm_map(K k, V v) {
  M m;
  (void)m.emplace(k, v);
  auto r1 = m.emplace_or_get(k, v);
  auto r2 = m.get_or_emplace(k, v);
  auto r3 = m.get_or_emplace_lazy(k, [&] { return v; });
  (void)m[k];
  (void)m.contains(k);
  auto it = m.find(k);
  auto it2 = it;
  ++it2;
  it2++;
  it = std::move(it2);
  (void)(it == m.end());
  for (auto i = m.begin(); i != m.end(); ++i) {
    (void)(*i).first;
    (void)i->second;
  }
  auto it3 = m.begin();
  if (it3 != m.end()) it3 = m.erase(std::move(it3));
  it3.reset();
  (void)m.erase(k);
  (void)r1; (void)r2; (void)r3;
}

template <class S, class K>
void use_hm_set(K k) {
  S s;
  (void)s.emplace(k);
  auto r = s.emplace_or_get(k);
  (void)r;
  (void)s.contains(k);
  auto it = s.find(k);
  auto it2 = it;
  ++it2;
  it2++;
  (void)(it == s.end());
  for (auto i = s.begin(); i != s.end(); ++i) (void)*i;
  auto it3 = s.begin();
  if (it3 != s.end()) it3 = s.erase(std::move(it3));
  it3.reset();
  (void)s.erase(k);
}

struct colliding_hash {
  std::size_t operator()(const std::string& s) const { return s.size() & 1; }
  std::size_t operator()(int v) const { return static_cast<std::size_t>(v) & 1; }
};

template <class R>
struct hm {
  static void run() {
    use_hm_map<xenium::harris_michael_hash_map<int, int, p::reclaimer<R>, p::buckets<1>>, int, int>(1, 2);
    use_hm_map<xenium::harris_michael_hash_map<std::string, std::string, p::reclaimer<R>, p::buckets<4>, p::hash<colliding_hash>, p::memoize_hash<true>>,
               std::string, std::string>("a", "b");
    use_hm_map<xenium::harris_michael_hash_map<std::string, int, p::reclaimer<R>, p::memoize_hash<false>>, std::string, int>("a", 1);
    use_hm_map<xenium::harris_michael_hash_map<int, std::string, p::reclaimer<R>, p::memoize_hash<true>>, int, std::string>(1, "b");
    use_hm_set<xenium::harris_michael_list_based_set<int, p::reclaimer<R>>, int>(1);
    use_hm_set<xenium::harris_michael_list_based_set<std::string, p::reclaimer<R>>, std::string>("a");
    // a configured backoff strategy: code under `if constexpr (backoff is not no_backoff)` exists only in these instantiations
    use_hm_set<xenium::harris_michael_list_based_set<int, p::reclaimer<R>, p::backoff<xenium::exponential_backoff<16>>>, int>(1);
    use_hm_map<xenium::harris_michael_hash_map<int, int, p::reclaimer<R>, p::backoff<xenium::single_backoff>>, int, int>(1, 2);
  }
};

struct vnode {
  int x = 0;
};

template <class M, class K, class V, class MakeV>
void use_vyukov(K k, MakeV mk) {
  M m(1);
  (void)m.emplace(k, mk());
  auto r1 = m.get_or_emplace(k, mk());
  auto r2 = m.get_or_emplace_lazy(k, [&] { return mk(); });
  typename M::accessor acc;
  (void)m.try_get_value(k, acc);
  (void)m.extract(k, acc);
  (void)m.erase(k);
  auto it = m.find(k);
  if (it != m.end()) m.erase(it);
  auto it2 = m.begin();
  typename M::iterator it3(std::move(it2));
  it = std::move(it3);
  for (; it != m.end(); ++it) (void)*it;
  it.reset();
  (void)r1; (void)r2;
}

template <class R>
struct vy {
  static void run() {
    use_vyukov<xenium::vyukov_hash_map<int, int, p::reclaimer<R>>, int, int>(1, [] { return 2; });
    use_vyukov<xenium::vyukov_hash_map<int, std::string, p::reclaimer<R>>, int, std::string>(1, [] { return std::string("v"); });
    use_vyukov<xenium::vyukov_hash_map<std::string, int, p::reclaimer<R>>, std::string, int>("k", [] { return 2; });
    use_vyukov<xenium::vyukov_hash_map<std::string, std::string, p::reclaimer<R>>, std::string, std::string>("k", [] { return std::string("v"); });
    // a configured hash that differs from the default, with a trivial and a non-trivial key (grow() re-hashes with the configured functor)
    use_vyukov<xenium::vyukov_hash_map<int, int, p::reclaimer<R>, p::hash<colliding_hash>>, int, int>(1, [] { return 2; });
    use_vyukov<xenium::vyukov_hash_map<int, int, p::reclaimer<R>, p::backoff<xenium::single_backoff>>, int, int>(1, [] { return 2; });
    use_vyukov<xenium::vyukov_hash_map<std::string, int, p::reclaimer<R>, p::hash<colliding_hash>>, std::string, int>("k", [] { return 2; });
  }
};
template <class R>
struct vy_managed {
  struct mnode : R::template enable_concurrent_ptr<mnode> {
    int x = 0;
  };
  static void run() {
    use_vyukov<xenium::vyukov_hash_map<int, xenium::managed_ptr<mnode, R>, p::reclaimer<R>>, int, mnode*>(1, [] { return new mnode; });
    use_vyukov<xenium::vyukov_hash_map<std::string, xenium::managed_ptr<mnode, R>, p::reclaimer<R>>, std::string, mnode*>("k", [] { return new mnode; });
  }
};
} // namespace

void maps_matrix() {
  inst::for_all_reclaimers<hm>();
  inst::for_all_but_lfrc<vy>();
  inst::for_all_but_lfrc<vy_managed>();
  {
    xenium::chase_work_stealing_deque<int, p::capacity<2>> d;
    int v = 0;
    int* pv = &v;
    (void)d.try_push(pv);
    (void)d.try_pop(pv);
    (void)d.try_steal(pv);
    (void)d.size();
    xenium::chase_work_stealing_deque<int, p::capacity<128>> d1;
    (void)d1.try_push(pv);
    (void)d1.try_pop(pv);
    (void)d1.try_steal(pv);
    xenium::chase_work_stealing_deque<int, p::capacity<4>, p::container<xenium::detail::fixed_size_circular_array<int, 4>>> d2;
    (void)d2.try_push(pv);
    (void)d2.try_pop(pv);
    (void)d2.try_steal(pv);
  }
  {
    xenium::left_right<std::string> lr;
    lr.update([](std::string& s) { s += "x"; });
    (void)lr.read([](const std::string& s) { return s.size(); });
    // both constructors with a class type (moves are real), a functor that returns a reference into the instance
    xenium::left_right<std::string> lr3(std::string("a"));
    xenium::left_right<std::string> lr4(std::string("l"), std::string("r"));
    std::string copy = lr4.read([](const std::string& s) -> const std::string& { return s; });
    (void)copy;
    (void)lr3;
    xenium::left_right<int> lr2(1, 1);
    lr2.update([](int& s) { ++s; });
    (void)lr2.read([](const int& s) { return s; });
  }
}
