// instantiation matrix: every guard_ptr member of every reclaimer configuration (incl. region_guard, swap, reclaim)
#include "reclaimers.hpp"
#include <xenium/acquire_guard.hpp>
#include <utility>

namespace {
template <class R>
struct guards {
  struct node : R::template enable_concurrent_ptr<node, 2> {
    int v = 0;
  };
  using cptr = typename R::template concurrent_ptr<node, 2>;
  using mptr = typename cptr::marked_ptr;
  using gptr = typename cptr::guard_ptr;
  static void run() {
    cptr c(new node);
    typename R::region_guard rg;
    gptr a;
    a.acquire(c, std::memory_order_acquire);
    gptr b(a);
    gptr d(std::move(b));
    gptr e(c.load(std::memory_order_relaxed));
    b = a;
    d = std::move(b);
    b = b;
    mptr m = c.load(std::memory_order_acquire);
    bool ok = e.acquire_if_equal(c, m, std::memory_order_acquire);
    (void)ok;
    a.swap(d);
    gptr f = xenium::acquire_guard(c, std::memory_order_acquire);
    (void)f.get();
    (void)f.mark();
    (void)static_cast<bool>(f);
    (void)f->v;
    (void)(*f).v;
    e.reset();
    d.reset();
    f.reset();
    b.reset();
    mptr expected = m;
    c.compare_exchange_strong(expected, mptr(nullptr), std::memory_order_acq_rel, std::memory_order_relaxed);
    c.compare_exchange_weak(expected, mptr(nullptr), std::memory_order_release, std::memory_order_relaxed);
    c.store(mptr(nullptr), std::memory_order_release);
    a.reclaim();
  }
};
} // namespace

void reclaimers_matrix() { inst::for_all_reclaimers<guards>(); }
