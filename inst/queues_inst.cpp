// instantiation matrix: queues x reclaimers x element kinds x small node sizes
#include "reclaimers.hpp"
#include <xenium/kirsch_bounded_kfifo_queue.hpp>
#include <xenium/kirsch_kfifo_queue.hpp>
#include <xenium/michael_scott_queue.hpp>
#include <xenium/nikolaev_bounded_queue.hpp>
#include <xenium/nikolaev_queue.hpp>
#include <xenium/ramalhete_queue.hpp>
#include <xenium/vyukov_bounded_queue.hpp>
#include <memory>
#include <string>

namespace {
namespace p = xenium::policy;
struct nontrivial {
  std::string s;
  nontrivial() = default;
  nontrivial(nontrivial&&) noexcept = default;
  nontrivial& operator=(nontrivial&&) noexcept = default;
};

template <class Q, class T>
void use_value_queue(Q& q) {
  q.push(T{});
  T v{};
  (void)q.try_pop(v);
  auto o = q.pop();
  (void)o;
}
template <class Q, class T>
void use_ptr_queue(Q& q, T v) {
  q.push(std::move(v));
  T r{};
  (void)q.try_pop(r);
  auto o = q.pop();
  (void)o;
}

template <class R>
struct queues {
  static void run() {
    {
      xenium::michael_scott_queue<int, p::reclaimer<R>> q;
      use_value_queue<decltype(q), int>(q);
      xenium::michael_scott_queue<nontrivial, p::reclaimer<R>> q2;
      use_value_queue<decltype(q2), nontrivial>(q2);
      xenium::michael_scott_queue<std::unique_ptr<int>, p::reclaimer<R>> q3;
      use_value_queue<decltype(q3), std::unique_ptr<int>>(q3);
      // configured backoff: code under `if constexpr (backoff is not no_backoff)` exists only in such instantiations
      xenium::michael_scott_queue<int, p::reclaimer<R>, p::backoff<xenium::single_backoff>> q4;
      use_value_queue<decltype(q4), int>(q4);
    }
    {
      xenium::ramalhete_queue<int*, p::reclaimer<R>, p::entries_per_node<1>, p::pop_retries<0>> q;
      use_ptr_queue(q, static_cast<int*>(nullptr));
      xenium::ramalhete_queue<std::unique_ptr<int>, p::reclaimer<R>, p::entries_per_node<2>> q2;
      use_ptr_queue(q2, std::unique_ptr<int>());
      xenium::ramalhete_queue<int*, p::reclaimer<R>> q3;
      use_ptr_queue(q3, static_cast<int*>(nullptr));
      xenium::ramalhete_queue<int*, p::reclaimer<R>, p::backoff<xenium::single_backoff>> q3b;
      use_ptr_queue(q3b, static_cast<int*>(nullptr));
      // node sizes that share a factor with small primes (the slot index is ticket * step mod entries_per_node)
      xenium::ramalhete_queue<int*, p::reclaimer<R>, p::entries_per_node<11>> q4;
      use_ptr_queue(q4, static_cast<int*>(nullptr));
      xenium::ramalhete_queue<int*, p::reclaimer<R>, p::entries_per_node<286>> q5;
      use_ptr_queue(q5, static_cast<int*>(nullptr));
    }
    {
      xenium::nikolaev_queue<int, p::reclaimer<R>, p::entries_per_node<2>, p::pop_retries<0>> q;
      use_value_queue<decltype(q), int>(q);
      xenium::nikolaev_queue<nontrivial, p::reclaimer<R>, p::entries_per_node<4>> q2;
      use_value_queue<decltype(q2), nontrivial>(q2);
      xenium::nikolaev_queue<std::unique_ptr<int>, p::reclaimer<R>> q3;
      use_value_queue<decltype(q3), std::unique_ptr<int>>(q3);
    }
  }
};

template <class R>
struct kfifo {
  static void run() {
    xenium::kirsch_kfifo_queue<int*, p::reclaimer<R>> q(1);
    use_ptr_queue(q, static_cast<int*>(nullptr));
    xenium::kirsch_kfifo_queue<std::unique_ptr<int>, p::reclaimer<R>, p::padding_bytes<0>> q2(4);
    use_ptr_queue(q2, std::unique_ptr<int>());
  }
};
} // namespace

void queues_matrix() {
  inst::for_all_reclaimers<queues>();
  inst::for_all_but_lfrc<kfifo>();
  {
    xenium::kirsch_bounded_kfifo_queue<int*> q(1, 1);
    int* v = nullptr;
    (void)q.try_push(v);
    (void)q.try_pop(v);
    auto o = q.pop();
    (void)o;
    xenium::kirsch_bounded_kfifo_queue<std::unique_ptr<int>, p::padding_bytes<0>> q2(4, 3);
    std::unique_ptr<int> u;
    (void)q2.try_push(std::move(u));
    (void)q2.try_pop(u);
    auto o2 = q2.pop();
    (void)o2;
  }
  {
    xenium::vyukov_bounded_queue<int> q(2);
    int v = 0;
    (void)q.try_push(1);
    (void)q.try_push_weak(1);
    (void)q.try_pop(v);
    (void)q.try_pop_weak(v);
    xenium::vyukov_bounded_queue<nontrivial, p::default_to_weak<true>> q2(4);
    nontrivial n;
    (void)q2.try_push(nontrivial{});
    (void)q2.try_push_strong(nontrivial{});
    (void)q2.try_pop(n);
    (void)q2.try_pop_strong(n);
    (void)q2.try_push_weak(nontrivial{});
    (void)q2.try_pop_weak(n);
    (void)q2.pop();
    (void)q2.pop_strong();
    (void)q2.pop_weak();
    xenium::vyukov_bounded_queue<std::unique_ptr<int>> q3(2);
    std::unique_ptr<int> u;
    (void)q3.try_push(std::make_unique<int>(1));
    (void)q3.try_pop(u);
  }
  {
    xenium::nikolaev_bounded_queue<int> q(3);
    int v = 0;
    (void)q.try_push(1);
    (void)q.try_pop(v);
    xenium::nikolaev_bounded_queue<nontrivial, p::pop_retries<0>> q2(2);
    nontrivial n;
    (void)q2.try_push(nontrivial{});
    (void)q2.try_pop(n);
    xenium::nikolaev_bounded_queue<std::unique_ptr<int>> q3(4);
    std::unique_ptr<int> u;
    (void)q3.try_push(std::make_unique<int>(1));
    (void)q3.try_pop(u);
  }
}
