#!/usr/bin/env python3
"""Rewrites unified diffs so that hunks for files that have CRLF line endings in /repo carry CRLF lines too (the three headers that are CRLF
in upstream).  usage: crlf_patch.py <patch file>...   (in place; idempotent)"""
import re
import subprocess
import sys

REPO = "/repo"


def is_crlf(path):
    try:
        with open(REPO + "/" + path, "rb") as fh:
            return b"\r\n" in fh.read(4096)
    except OSError:
        return False


def convert(p):
    data = open(p, "rb").read().split(b"\n")
    out = []
    crlf = False
    in_hunk = False
    for ln in data:
        if ln.startswith(b"diff --git "):
            m = re.match(rb"diff --git a/(\S+) b/(\S+)", ln)
            crlf = bool(m) and is_crlf(m.group(2).decode())
            in_hunk = False
        elif ln.startswith(b"@@"):
            in_hunk = True
        elif in_hunk and crlf and ln[:1] in (b" ", b"+", b"-") and not ln.endswith(b"\r") and not ln.startswith(b"--- ") and not ln.startswith(b"+++ "):
            ln = ln + b"\r"
        out.append(ln)
    new = b"\n".join(out)
    if new != b"\n".join(data):
        open(p, "wb").write(new)
        return True
    return False


if __name__ == "__main__":
    for p in sys.argv[1:]:
        ch = convert(p)
        r = subprocess.run(["git", "-C", REPO, "apply", "--check", p], stderr=subprocess.PIPE, text=True)
        print("%-60s %s %s" % (p, "converted" if ch else "unchanged", "applies" if r.returncode == 0 else "DOES-NOT-APPLY: " + r.stderr.strip().split("\n")[0][:100]))
