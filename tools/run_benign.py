#!/usr/bin/env python3
"""Runs every check on each behaviour-preserving patch of a directory (pNN.diff): all must stay silent (exit 0).
usage: run_benign.py <dir with *.diff> [-j N]      (scratch copies under $TMPDIR, removed afterwards)"""
import glob
import os
import re
import shutil
import subprocess
import sys
import tempfile
from concurrent.futures import ThreadPoolExecutor

VERIF = os.path.dirname(os.path.dirname(os.path.abspath(__file__)))
SRC = os.environ.get("XV_SRC_REPO", "/repo")


def one(pf):
    s = tempfile.mkdtemp(prefix="xv-scratch.", dir=os.environ.get("TMPDIR", "/tmp"))
    try:
        shutil.copytree(os.path.join(SRC, "xenium"), os.path.join(s, "xenium"))
        shutil.copytree(os.path.join(SRC, "test"), os.path.join(s, "test"))
        os.symlink(os.path.join(SRC, "3rdParty"), os.path.join(s, "3rdParty"))
        r = subprocess.run(["git", "apply", "--directory", s, "--unsafe-paths", pf], cwd="/", stdout=subprocess.PIPE, stderr=subprocess.STDOUT, text=True)
        if r.returncode != 0:
            r = subprocess.run(["patch", "-s", "-p1", "-d", s], stdin=open(pf), stdout=subprocess.PIPE, stderr=subprocess.STDOUT, text=True)
            if r.returncode != 0:
                return pf, "PATCH-FAILED", r.stdout
        r = subprocess.run([os.path.join(VERIF, "bin", "xv"), "check-all"], env=dict(os.environ, XV_REPO=s), cwd=VERIF, stdout=subprocess.PIPE,
                           stderr=subprocess.STDOUT, text=True)
        bad = [l for l in r.stdout.splitlines() if re.match(r"RC C\d\d [12]", l) or l.startswith("ANALYSIS-BROKEN") or l.startswith("Traceback")]
        if r.returncode != 0 and not bad:
            bad = ["exit code %d" % r.returncode]
        det = [l for l in r.stdout.splitlines() if l.startswith("  rule=") or l.startswith("ANALYSIS-BROKEN")]
        return pf, ("silent" if not bad else "ALARM " + " ".join(bad)), "\n".join(sorted(set(det)))
    finally:
        shutil.rmtree(s, ignore_errors=True)


def main():
    d = sys.argv[1]
    jobs = int(sys.argv[sys.argv.index("-j") + 1]) if "-j" in sys.argv else 3
    files = sorted(f for f in glob.glob(os.path.join(d, "*.diff")) if not f.endswith("all.diff"))
    n_bad = 0
    with ThreadPoolExecutor(max_workers=jobs) as ex:
        for pf, verdict, det in ex.map(one, files):
            print("%-40s %s" % (os.path.relpath(pf, d), verdict))
            if verdict != "silent":
                n_bad += 1
                print("    " + det.replace("\n", "\n    ")[:3000])
    print("%d patches, %d not silent" % (len(files), n_bad))
    return 1 if n_bad else 0


if __name__ == "__main__":
    sys.exit(main())
