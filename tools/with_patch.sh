#!/bin/bash
# usage: with_patch.sh [-R] <patch> <command...>
# Runs <command> with XV_REPO pointing to a scratch copy of /repo (xenium/ + test/) with <patch> applied.
# The scratch copy lives under ${TMPDIR:-/tmp} and is removed afterwards.
set -u
REV=""
if [ "$1" = "-R" ]; then REV="-R"; shift; fi
PATCH=$(readlink -f "$1"); shift
SRC=${XV_SRC_REPO:-/repo}
S=$(mktemp -d "${TMPDIR:-/tmp}/xv-scratch.XXXXXX")
trap 'rm -rf "$S"' EXIT
cp -r "$SRC/xenium" "$S/xenium"
cp -r "$SRC/test" "$S/test"
ln -s "$SRC/3rdParty" "$S/3rdParty"
if ! patch -s -p1 $REV -d "$S" < "$PATCH"; then echo "PATCH-FAILED $PATCH"; exit 3; fi
XV_REPO="$S" "$@"
rc=$?
exit $rc
