#!/bin/bash
# usage: verify_seed.sh <seed dir containing patch.diff demo.cpp> [extra demo compile flags...]
# Confirms in the scratch worktree $WT (default /tmp/wt/full, a git worktree of /repo with a built _build):
#   demo passes on the clean tree, fails with the patch; the patched tree builds and the unedited suite passes.
# Prints one summary line; leaves the worktree clean.
SEED=$(readlink -f "$1"); shift
WT=${WT:-/tmp/wt/full}
FLAGS="$*"
cd "$WT" || exit 9
git checkout -q -- xenium test
D=$(mktemp -d /tmp/xv-demo.XXXXXX)
build_demo() { g++ -std=c++17 -O1 -g -I. "$SEED/demo.cpp" -pthread $FLAGS -o "$D/$1" > "$D/$1.build.log" 2>&1; }
run_demo() { timeout 300 "$D/$1" > "$D/$1.out" 2>&1; echo $?; }
build_demo clean || { echo "RESULT seed=$SEED demo-build-failed-on-clean"; cat "$D/clean.build.log" | tail -5; exit 1; }
RC_CLEAN=$(run_demo clean)
git apply --ignore-whitespace "$SEED/patch.diff" || { echo "RESULT seed=$SEED patch-does-not-apply"; exit 1; }
build_demo patched || { echo "RESULT seed=$SEED demo-build-failed-with-patch"; git checkout -q -- xenium; exit 1; }
RC_PATCHED=$(run_demo patched)
RC_PATCHED2=$(run_demo patched)
cmake --build _build --target gtest -- -j${JOBS:-8} > "$D/suite.build.log" 2>&1; BUILD=$?
SUITE="not-run"
if [ $BUILD = 0 ]; then
  timeout 1500 ./_build/gtest --gtest_brief=1 > "$D/suite.log" 2>&1
  SUITE_RC=$?
  SUITE="$(grep -E "PASSED|FAILED" "$D/suite.log" | tr '\n' ' ')exit=$SUITE_RC"
fi
git checkout -q -- xenium test
echo "RESULT seed=$SEED demo_clean_rc=$RC_CLEAN demo_patched_rc=$RC_PATCHED,$RC_PATCHED2 suite_build=$BUILD suite='$SUITE'"
tail -3 "$D/patched.out" | sed 's/^/   patched-demo: /'
rm -rf "$D"
