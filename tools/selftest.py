#!/usr/bin/env python3
"""Checker self-test: applies each mutant of selftest/mutants.json (a single textual replacement in a scratch copy of /repo,
or a patch file) and requires the property's check to exit 1 naming the expected rule; applies each benign edit and requires exit 0.
usage: selftest.py [-k <substring of id>] [--benign] [-j N]"""
import json
import os
import re
import shutil
import subprocess
import sys
import tempfile
from concurrent.futures import ThreadPoolExecutor

VERIF = os.path.dirname(os.path.dirname(os.path.abspath(__file__)))
SRC = os.environ.get("XV_SRC_REPO", "/repo")


def run_one(m):
    s = tempfile.mkdtemp(prefix="xv-scratch.", dir=os.environ.get("TMPDIR", "/tmp"))
    try:
        shutil.copytree(os.path.join(SRC, "xenium"), os.path.join(s, "xenium"))
        shutil.copytree(os.path.join(SRC, "test"), os.path.join(s, "test"))
        os.symlink(os.path.join(SRC, "3rdParty"), os.path.join(s, "3rdParty"))
        if "patch" in m:
            r = subprocess.run(["patch", "-s", "-p1", "-d", s] + (["-R"] if m.get("reverse") else []), stdin=open(os.path.join(VERIF, m["patch"])),
                               stdout=subprocess.PIPE, stderr=subprocess.STDOUT, text=True)
            if r.returncode != 0:
                return m, "PATCH-FAILED", r.stdout
        else:
            edits = m["edits"] if "edits" in m else [m]
            for e in edits:
                p = os.path.join(s, e["file"])
                txt = open(p).read()
                if "regex" in e:
                    txt2, nsub = re.subn(e["regex"], e["repl"], txt)
                    if nsub < e.get("min", 1):
                        return m, "EDIT-FAILED", "%s: regex %r matched %d times" % (e["file"], e["regex"], nsub)
                    open(p, "w").write(txt2)
                    continue
                if "renames" in e:
                    # rename identifiers (word boundaries) inside the region [start marker, end marker)
                    a = txt.index(e["start"])
                    b = txt.index(e["end"], a + len(e["start"]))
                    region = txt[a:b]
                    for old_, new_ in e["renames"].items():
                        region2 = re.sub(r"(?<![A-Za-z0-9_>.:])%s(?![A-Za-z0-9_])" % re.escape(old_), new_, region)
                        if region2 == region:
                            return m, "EDIT-FAILED", "%s: identifier %s not found in region" % (e["file"], old_)
                        region = region2
                    txt = txt[:a] + region + txt[b:]
                    open(p, "w").write(txt)
                    continue
                cnt = txt.count(e["old"])
                if cnt != e.get("count", 1):
                    return m, "EDIT-FAILED", "%s: expected %d occurrence(s) of %r, found %d" % (e["file"], e.get("count", 1), e["old"], cnt)
                txt = txt.replace(e["old"], e["new"])
                open(p, "w").write(txt)
        outs = []
        verdict = "ok"
        for prop in m["props"]:
            env = dict(os.environ, XV_REPO=s)
            r = subprocess.run([os.path.join(VERIF, "bin", "xv"), "check", prop, "--tier", "quick", "--no-evidence"], stdout=subprocess.PIPE, stderr=subprocess.STDOUT,
                               text=True, env=env, cwd=VERIF)
            outs.append("[%s rc=%d]\n%s" % (prop, r.returncode, r.stdout[-1500:]))
            if m.get("benign"):
                if r.returncode != 0:
                    verdict = "FALSE-ALARM(%s rc=%d)" % (prop, r.returncode)
            else:
                if r.returncode != 1:
                    verdict = "MISSED(%s rc=%d)" % (prop, r.returncode)
                elif m.get("rule") and not re.search(r"rule=" + re.escape(m["rule"]), r.stdout):
                    verdict = "WRONG-RULE(%s)" % prop
        return m, verdict, "\n".join(outs)
    finally:
        shutil.rmtree(s, ignore_errors=True)


def main():
    ms = json.load(open(os.path.join(VERIF, "selftest", "mutants.json")))
    args = sys.argv[1:]
    if "-k" in args:
        k = args[args.index("-k") + 1]
        ms = [m for m in ms if k in m["id"]]
    if "--benign" in args:
        ms = [m for m in ms if m.get("benign")]
    if "--from" in args:
        ms = ms[int(args[args.index("--from") + 1]):]
    jobs = int(args[args.index("-j") + 1]) if "-j" in args else 4
    bad = 0
    with ThreadPoolExecutor(max_workers=jobs) as ex:
        for m, verdict, out in ex.map(run_one, ms):
            print("%-40s %-10s %s" % (m["id"], "benign" if m.get("benign") else ",".join(m["props"]), verdict))
            if verdict != "ok":
                bad += 1
                if "-v" in args or True:
                    print("    " + out.replace("\n", "\n    ")[-1200:])
    print("%d mutants/benign edits, %d unexpected" % (len(ms), bad))
    return 1 if bad else 0


if __name__ == "__main__":
    sys.exit(main())
