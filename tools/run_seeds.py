#!/usr/bin/env python3
"""Runs the property check of every kept seeded change (seeded/<id>/patch.diff applied to a scratch copy of /repo) and records which rules
report it.  Writes seeded/RESULTS.md and updates meta.json (detected_by)."""
import json, os, re, subprocess, sys
VERIF = os.path.dirname(os.path.dirname(os.path.abspath(__file__)))
rows = []
for sid in sorted(os.listdir(os.path.join(VERIF, "seeded"))):
    d = os.path.join(VERIF, "seeded", sid)
    mp = os.path.join(d, "meta.json")
    if not os.path.exists(mp):
        continue
    if len(sys.argv) > 1 and sys.argv[1] not in sid:
        continue
    meta = json.load(open(mp))
    prop = meta["breaks_property"]
    r = subprocess.run([os.path.join(VERIF, "tools", "with_patch.sh"), os.path.join(d, "patch.diff"), os.path.join(VERIF, "bin", "xv"), "check", prop, "--no-evidence"],
                       stdout=subprocess.PIPE, stderr=subprocess.STDOUT, text=True, cwd=VERIF)
    rules = sorted(set(re.findall(r"rule=(\S+)", r.stdout)))
    meta["detected_by"] = rules
    meta["check_exit_code"] = r.returncode
    json.dump(meta, open(mp, "w"), indent=1)
    rows.append((sid, prop, r.returncode, rules))
    print(sid, prop, r.returncode, rules)
with open(os.path.join(VERIF, "seeded", "RESULTS.md"), "w") as fh:
    fh.write("# Seeded changes vs. checks\n\n| seed | property | check exit | reported by rule(s) |\n|---|---|---|---|\n")
    for sid, prop, rc, rules in rows:
        fh.write("| %s | %s | %d | %s |\n" % (sid, prop, rc, ", ".join(rules) or "**missed**"))
