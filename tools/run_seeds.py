#!/usr/bin/env python3
"""Runs the property check of every kept seeded change (seeded/<id>/patch.diff applied to a scratch copy of /repo) and records which rules
report it.  Writes seeded/RESULTS.md and updates meta.json (detected_by).
usage: run_seeds.py [<substring of id>] [--new-only] [-j N]      (--new-only: only seeds whose meta.json has no detected_by yet)"""
import json, os, re, subprocess, sys
from concurrent.futures import ThreadPoolExecutor
VERIF = os.path.dirname(os.path.dirname(os.path.abspath(__file__)))
args = [a for a in sys.argv[1:] if not a.startswith("-")]
jobs = int(sys.argv[sys.argv.index("-j") + 1]) if "-j" in sys.argv else 1
if "-j" in sys.argv:
    args = [a for a in args if a != sys.argv[sys.argv.index("-j") + 1]]
new_only = "--new-only" in sys.argv
sel = args[0] if args else None


def one(sid):
    d = os.path.join(VERIF, "seeded", sid)
    mp = os.path.join(d, "meta.json")
    meta = json.load(open(mp))
    prop = meta["breaks_property"]
    r = subprocess.run([os.path.join(VERIF, "tools", "with_patch.sh"), os.path.join(d, "patch.diff"), os.path.join(VERIF, "bin", "xv"), "check", prop, "--no-evidence"],
                       stdout=subprocess.PIPE, stderr=subprocess.STDOUT, text=True, cwd=VERIF)
    rules = sorted(set(re.findall(r"rule=(\S+)", r.stdout)))
    meta["detected_by"] = rules
    meta["check_exit_code"] = r.returncode
    json.dump(meta, open(mp, "w"), indent=1)
    print(sid, prop, r.returncode, rules, flush=True)


todo = []
for sid in sorted(os.listdir(os.path.join(VERIF, "seeded"))):
    mp = os.path.join(VERIF, "seeded", sid, "meta.json")
    if not os.path.exists(mp):
        continue
    if sel and sel not in sid:
        continue
    if new_only and json.load(open(mp)).get("detected_by"):
        continue
    todo.append(sid)
with ThreadPoolExecutor(max_workers=jobs) as ex:
    list(ex.map(one, todo))
rows = []
for sid in sorted(os.listdir(os.path.join(VERIF, "seeded"))):
    mp = os.path.join(VERIF, "seeded", sid, "meta.json")
    if os.path.exists(mp):
        m = json.load(open(mp))
        rows.append((sid, m["breaks_property"], m.get("check_exit_code", -1), m.get("detected_by", [])))
with open(os.path.join(VERIF, "seeded", "RESULTS.md"), "w") as fh:
    fh.write("# Seeded changes vs. checks\n\n| seed | property | check exit | reported by rule(s) |\n|---|---|---|---|\n")
    for sid, prop, rc, rules in rows:
        fh.write("| %s | %s | %d | %s |\n" % (sid, prop, rc, ", ".join(rules) or "**missed**"))
