#!/usr/bin/env python3
"""keep_seed.py <id e.g. C14-1> <property> <seed dir> "<RESULT line of verify_seed.sh>" "<what it needs to manifest>"
copies patch.diff, demo.cpp, README.txt, notes.md into /verif/seeded/<id>/ and writes meta.json"""
import json, os, shutil, sys
sid, prop, src, result, needs = sys.argv[1:6]
dst = os.path.join(os.path.dirname(os.path.dirname(os.path.abspath(__file__))), "seeded", sid)
os.makedirs(dst, exist_ok=True)
for f in ("patch.diff", "demo.cpp", "README.txt", "notes.md"):
    if os.path.exists(os.path.join(src, f)):
        shutil.copy(os.path.join(src, f), os.path.join(dst, f))
meta = {"id": sid, "breaks_property": prop, "origin": "independent sub-agent given only the property text and a scratch worktree of /repo",
        "needs_to_manifest": needs,
        "confirmed_by": "tools/verify_seed.sh in a scratch worktree of /repo HEAD: demo exits 0 on the clean tree, non-zero with the patch (run twice); "
                        "patched tree builds; unedited suite passes (1000 gtest tests)",
        "verify_result": result, "detected_by": []}
if os.path.exists(os.path.join(dst, "meta.json")):
    old = json.load(open(os.path.join(dst, "meta.json")))
    meta["detected_by"] = old.get("detected_by", [])
json.dump(meta, open(os.path.join(dst, "meta.json"), "w"), indent=1)
print("kept", dst)
