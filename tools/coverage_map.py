#!/usr/bin/env python3
"""Development aid: which library functions does no specific rule ever ask for?  Logs every pattern requested through Facts.shapes/require
during a run of all properties and lists the functions of /repo/xenium (with a non-trivial CFG or atomic operations) never requested -
these are only covered by the generic rules (K1, K11, GUARD.*, STATE.*) that scan whole files."""
import os, sys, io, contextlib
sys.path.insert(0, os.path.dirname(os.path.dirname(os.path.abspath(__file__))))
from xv.facts import Facts
from xv import props
sys.argv.append("--no-evidence")
asked = set()
_s, _r = Facts.shapes, Facts.require
def shapes(self, pat):
    asked.add(pat); return _s(self, pat)
def require(self, pat):
    asked.add(pat); return _r(self, pat)
Facts.shapes, Facts.require = shapes, require
f = Facts("quick")
buf = io.StringIO()
with contextlib.redirect_stdout(buf):
    for p in sorted(props.PROPS):
        props.run(p, "quick", facts=f)
rows = []
for pat, fs in sorted(f.by_pat.items()):
    fn = fs[0]
    if "/xenium/" not in fn.file and not fn.file.startswith("xenium/"):
        continue
    nb = max(len(x.live_blocks()) for x in fs)
    na = max(len(x.atomics()) for x in fs)
    if pat in asked or (nb < 4 and na == 0):
        continue
    rows.append((fn.relfile, pat, nb, na))
for r in sorted(rows):
    print("%-55s %-90s blocks=%d atomics=%d" % r)
print(len(rows), "of", len(f.by_pat), "patterns never requested by a specific rule")
