#!/usr/bin/env python3
"""Regenerates MANIFEST.json from the property table in xv/props.py and the evidence files (run `bin/xv check <id>` for all ids first)."""
import json
import os
import sys

VERIF = os.path.dirname(os.path.dirname(os.path.abspath(__file__)))
sys.path.insert(0, VERIF)
from xv import props  # noqa: E402

TECH = {
    "C01": "static analysis: CFG dominance / control-dependence rules per reclamation scheme, guard typestate, origin analysis of dereferenced pointers in container code + memory-order contract table",
    "C02": "static analysis: K2/K4 path rules (deleter-before-retire, hand-over and control-block release at thread exit, push re-link), finite execution of the list-walking delete / hand-over routines on small lists, slot-count balance, memory-order contract",
    "C03": "static analysis: constant-evaluated memory orders per CFG event vs frozen contract table + live comment graph",
    "C04": "static analysis: control-dependence and order rules on queue CFGs, finite evaluation of the SCQ tail CAS, guard-protected CAS expectations (ABA), memory-order contract",
    "C05": "static analysis: cell-protocol path rules, finite evaluation of sequence arithmetic and of the pure capacity / index helpers (next_power_of_two, remap_index bijection), SCQ settle-slot rule, memory-order contract",
    "C06": "static analysis: tag-expression discipline over all tagged CAS sites, guarded-action rules, validated (head, tail) snapshot rule, exhaustive finite evaluation of the region predicates, constructor size check vs field width",
    "C07": "static analysis: ownership path rules (move-out/destroy pairing, release-after-store, destructor bounds), finite execution of the queue destructors on small node lists / rings, use-after-move dataflow",
    "C08": "static analysis: exhaustive finite evaluation of the ordering predicate, erase/insert protocol path rules, guard-protected CAS expectations (ABA), use-after-move dataflow",
    "C09": "static analysis: exhaustive finite evaluation of the re-scan predicate, iterator guard/paired-field rules",
    "C10": "static analysis: forward must-dataflow (reader validation), marker/version protocol rules, lock pairing, grow ordering",
    "C11": "static analysis: iterator lock typestate and cached-state coherence rules over CFGs",
    "C12": "static analysis: path rules for push/pop/steal (success only via the won CAS, failure only via empty / lost CAS), mask kind discipline, exhaustive finite evaluation of grow() index arithmetic",
    "C13": "static analysis: finite reader/writer table agreement extracted from the CFGs, order rules, memory-order contract",
    "C14": "static analysis: per-instantiation copy coverage from type sizes, protocol order rules, finite evaluation of slot indices",
    "C15": "static analysis: abstract interpretation of -O1 LLVM IR over a bit-provenance domain (all mark widths), order pass-through",
    "C16": "static analysis: wait-construct detection (quiet CFG cycles whose conditions are invariant under solo execution) + call-graph reachability from documented lock-free operations, finite execution of the weak bounded-queue loop round",
    "C17": "static analysis: adoption-before-allocation, (re)initialisation order, activity-conjunct and thread-exit path rules",
    "C18": "static analysis: slot allocation/release path rules, exhaustion-throws rule, noexcept functions never reach the exhaustion throw (call-graph reachability), exception-safety order rule (alloc before release)",
}


def main():
    import subprocess
    n_fix = sum(1 for l in subprocess.run(["git", "-C", "/repo", "log", "--format=%s"], stdout=subprocess.PIPE, text=True).stdout.splitlines() if l.startswith("fix:"))
    checks = []
    for pid in sorted(props.PROPS):
        evp = os.path.join(VERIF, "evidence", pid + ".json")
        ev = json.load(open(evp))
        expl = ev["coverage"]["explanation"]
        nd = ev["coverage"].get("not_decided", "")
        checks.append({
            "property_id": pid,
            "quick_cmd": "bin/xv check %s --tier quick" % pid,
            "thorough_cmd": "bin/xv check %s --tier thorough" % pid,
            "evidence_file": "evidence/%s.json" % pid,
            "replay_cmd_template": "bin/xv explain {path}",
            "engine": "xv",
            "level_claimed": {
                "category": "other",
                "text": expl + " These are necessary conditions of the property, decided for every path of every instantiated function in both build variants; "
                               "NOT decided: " + nd + ".",
                "design_ref": "DESIGN.md section 3, " + pid,
            },
            "level_note": "trusts clang 14 (AST, constant evaluation, CFG construction) and the frozen rule tables in xv/rules and tables/; covers the functions "
                          "instantiated by /verif/inst/*.cpp and /repo/test/**/*.cpp (a function never instantiated is not analysed); a rule whose anchor function "
                          "vanished ends analysis-broken (exit 2), never as a pass",
            "technique": TECH[pid],
        })
    m = {
        "version": 1,
        "setup_cmd": "bin/xv setup",
        "hooks": {
            "guard": "XENIUM_VERIF",
            "enable": "none needed: the checks read the unmodified headers of /repo (clang++ -fsyntax-only with the xfacts plugin, clang -O1 -emit-llvm for "
                      "marked_ptr); no hook exists in /repo",
            "baseline_off_cmd": "cmake --build /repo/_build --target gtest && ctest --test-dir /repo/_build -j8 --timeout 900",
            "source_commits": [],
            "add_only": True,
        },
        "engines": [
            {"name": "xfacts", "path": "plugin/xfacts.cc", "serves_properties": sorted(props.PROPS),
             "kind_free_text": "clang-14 frontend plugin: per-instantiation CFG in linear SSA-like form, resolved callees, field declarations, "
                               "constant-evaluated memory orders and integer constants, record layouts"},
            {"name": "xv", "path": "bin/xv", "serves_properties": sorted(props.PROPS),
             "kind_free_text": "python rule engines over the extracted facts: dominance / control dependence / must-dataflow / finite expression "
                               "evaluation / bit-provenance abstract interpretation / call-graph reachability"},
            {"name": "selftest", "path": "tools/selftest.py", "serves_properties": sorted(props.PROPS),
             "kind_free_text": "checker self-test: mutant corpus (must be reported) and benign edits (must stay silent) applied to scratch copies of /repo"},
        ],
        "checks": checks,
        "not_applicable": [],
        "notes": "All 18 properties are claimed at level 'other' for their structurally decidable necessary conditions only; the schedule/history-quantified core of "
                 "each property (linearizability, absence of use-after-free under every interleaving, bounded solo steps as a number) is not decidable by static "
                 "analysis within reach and is stated as not decided in each check's level text and in DESIGN.md section 6. Genuine defects found on the pinned tree "
                 "were repaired by %d 'fix:' commits in /repo (known_findings.txt lists them as fixed); one finding (F20, C05) is recorded as known and not repaired." % n_fix,
    }
    json.dump(m, open(os.path.join(VERIF, "MANIFEST.json"), "w"), indent=1)
    print("MANIFEST.json written with %d checks" % len(checks))


if __name__ == "__main__":
    main()
