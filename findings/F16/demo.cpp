// replay: iterator::operator++ yields the same key twice although it was never erased
#include <xenium/harris_michael_list_based_set.hpp>
#include <xenium/harris_michael_hash_map.hpp>
#include <xenium/reclamation/generic_epoch_based.hpp>
#include <atomic>
#include <cstdio>
#include <thread>

using R = xenium::reclamation::epoch_based<>;

int main() {
  xenium::harris_michael_list_based_set<int, xenium::policy::reclaimer<R>> set;
  set.emplace(1);
  set.emplace(3);
  std::atomic<bool> stop{false};
  std::thread upd([&] {
    while (!stop.load(std::memory_order_relaxed)) {
      set.emplace(2);
      set.erase(2);
    }
  });
  long dup = 0, rounds = 0;
  for (; rounds < 3000000 && dup == 0; ++rounds) {
    int last = -1;
    for (auto it = set.begin(); it != set.end(); ++it) {
      int k = *it;
      if (k == last && k != 2) {   // 1 and 3 are never erased
        ++dup;
        std::printf("round %ld: key %d yielded twice in a row\n", rounds, k);
        break;
      }
      last = k;
    }
  }
  stop = true;
  upd.join();
  std::printf("%s: %ld duplicates in %ld traversals\n", dup ? "FAIL" : "PASS", dup, rounds);
  return dup ? 1 : 0;
}
