#include <xenium/reclamation/quiescent_state_based.hpp>
#include <cstdio>
#include <unistd.h>
using R = xenium::reclamation::quiescent_state_based;
static int child_retired = 0, child_destroyed = 0, parent_destroyed = 0;
struct Child : R::enable_concurrent_ptr<Child> { ~Child() override { ++child_destroyed; } };
struct Parent : R::enable_concurrent_ptr<Parent> {
  Child* c = new Child;
  ~Parent() override {
    ++parent_destroyed;
    R::concurrent_ptr<Child>::guard_ptr g{R::concurrent_ptr<Child>::marked_ptr(c)};
    ++child_retired;
    g.reclaim();
  }
};
struct Dummy : R::enable_concurrent_ptr<Dummy> {};
int main() {
  alarm(30);
  {
    R::region_guard rg; // keep the region open so that nested reclaims do not run nested quiescent states
    for (int i = 0; i < 1; ++i) {
      R::concurrent_ptr<Parent>::guard_ptr g{R::concurrent_ptr<Parent>::marked_ptr(new Parent)};
      g.reclaim();
    }
  }
  for (int i = 0; i < 50; ++i) {
    R::concurrent_ptr<Dummy>::guard_ptr g{R::concurrent_ptr<Dummy>::marked_ptr(new Dummy)};
    g.reclaim();
  }
  std::printf("parents destroyed=%d children retired=%d destroyed=%d\n", parent_destroyed, child_retired, child_destroyed);
  return child_retired == child_destroyed ? 0 : 1;
}
