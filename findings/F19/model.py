#!/usr/bin/env python3
"""Explicit-state exploration of kirsch_bounded_kfifo_queue (k = 1) at the granularity of its atomic operations.
Triage tool only (decides 'real defect or not' for the flaky KirschBoundedKFifoQueue.parallel_usage), not a check."""
import sys
from collections import deque

N = int(sys.argv[1]) if len(sys.argv) > 1 else 3          # segments (k = 1 -> slots)
T = int(sys.argv[2]) if len(sys.argv) > 2 else 2          # threads
ITERS = int(sys.argv[3]) if len(sys.argv) > 3 else 2      # push;pop iterations per thread
FIX = sys.argv[4] if len(sys.argv) > 4 else "orig"


def in_valid(to, tc, hc):
    if not (tc < hc):
        return hc < to <= tc
    return hc < to or to <= tc


def not_in_valid(to, tc, hc):
    if not (tc < hc):
        return to < tc or hc < to
    return tc < to < hc          # (repaired wrap case)


# shared: head=(idx,tag), tail=(idx,tag), slots=tuple of (val,tag)
# thread: (pc, it, regs...) as a tuple; regs dict frozen as tuple of items

def step(shared, th, tid):
    """returns list of (shared', th', event) successors for one atomic step of thread th"""
    head, tail, slots = shared
    pc, it, r = th
    r = dict(r)
    def mk(pc2, it2=it, sh=None, ev=None):
        return ((sh or shared), (pc2, it2, tuple(sorted(r.items()))), ev)
    v = ("v", tid, it)
    if pc == "done":
        return []
    # ---------------- push
    if pc == "L1":
        r.clear(); r["to"] = tail; return [mk("L2")]
    if pc == "L2":
        r["ho"] = head; return [mk("L3")]
    if pc == "L3":
        s = slots[r["to"][0]]
        r["found"] = s[0] is None; r["ov"] = s; return [mk("L4")]
    if pc == "L4":
        return [mk("L1")] if tail != r["to"] else [mk("L5" if r["found"] else "Q1")]
    if pc == "L5":
        i = r["to"][0]
        if slots[i] == r["ov"]:
            nv = (v, r["ov"][1] + 1); r["nv"] = nv
            sl = list(slots); sl[i] = nv
            return [mk("C1", sh=(head, tail, tuple(sl)))]
        return [mk("L1")]
    if pc == "C1":
        if slots[r["to"][0]] != r["nv"]:
            return [mk("P1", ev=("pushed", tid, it))]
        return [mk("C2")]
    if pc == "C2":
        if FIX == "headfirst":
            r["hc"] = head
        else:
            r["tc"] = tail
        return [mk("C3")]
    if pc == "C3":
        if FIX == "headfirst":
            r["tc"] = tail
        else:
            r["hc"] = head
        return [mk("C3b" if FIX == "validate" else "C4")]
    if pc == "C3b":
        if tail == r["tc"]:
            return [mk("C4")]
        r["tc"] = tail
        return [mk("C3")]
    if pc == "C4":
        to, tc, hc = r["to"][0], r["tc"][0], r["hc"][0]
        if in_valid(to, tc, hc):
            return [mk("P1", ev=("pushed", tid, it))]
        if not_in_valid(to, tc, hc):
            return [mk("C5")]
        return [mk("C6")]
    if pc in ("C5", "C7"):
        i = r["to"][0]
        if slots[i] == r["nv"]:
            sl = list(slots); sl[i] = (None, r["nv"][1] + 1)
            return [mk("L1", sh=(head, tail, tuple(sl)))]
        return [mk("P1", ev=("pushed", tid, it))]
    if pc == "C6":
        if head == r["hc"]:
            return [mk("P1", sh=((head[0], head[1] + 1), tail, slots), ev=("pushed", tid, it))]
        return [mk("C7")]
    if pc == "Q1":
        idxfull = ((r["to"][0] + 1) % N == r["ho"][0])
        full = idxfull and head == r["ho"]
        if FIX == "fix19" and idxfull and not full:
            return [mk("L1")]
        return [mk("Q2" if full else "Q5")]
    if pc == "Q2":
        return [mk("Q3" if slots[r["ho"][0]][0] is None else "Q4")]
    if pc == "Q3":
        sh = shared
        if head == r["ho"]:
            sh = (((head[0] + 1) % N, head[1] + 1), tail, slots)
            return [mk("Q5", sh=sh)]
        return [mk("L1" if FIX == "fix19" else "Q5", sh=sh)]
    if pc == "Q4":
        if head == r["ho"]:
            return [mk("done", ev=("PUSH-REJECTED", tid, it))]
        return [mk("L1" if FIX == "fix19" else "Q5")]
    if pc == "Q5":
        sh = shared
        if tail == r["to"]:
            sh = (head, ((tail[0] + 1) % N, tail[1] + 1), slots)
        return [mk("L1", sh=sh)]
    # ---------------- pop
    if pc == "P1":
        r.clear(); r["ho"] = head; return [mk("P2")]
    if pc == "P2":
        r["to"] = tail; return [mk("P3")]
    if pc == "P3":
        s = slots[r["ho"][0]]
        r["found"] = s[0] is not None; r["ov"] = s; return [mk("P4")]
    if pc == "P4":
        if head != r["ho"]:
            return [mk("P1")]
        if r["found"]:
            return [mk("P6" if r["ho"][0] == r["to"][0] else "P7")]
        return [mk("P8")]
    if pc == "P6":
        sh = shared
        if tail == r["to"]:
            sh = (head, ((tail[0] + 1) % N, tail[1] + 1), slots)
        return [mk("P7", sh=sh)]
    if pc == "P7":
        i = r["ho"][0]
        if slots[i] == r["ov"]:
            sl = list(slots); sl[i] = (None, r["ov"][1] + 1)
            nxt = "L1" if it + 1 < ITERS else "done"
            r.clear()
            return [mk(nxt, it2=it + 1, sh=(head, tail, tuple(sl)), ev=("popped", tid, it))]
        return [mk("P1")]
    if pc == "P8":
        if r["ho"][0] == r["to"][0] and tail == r["to"]:
            return [mk("done", ev=("POP-EMPTY", tid, it))]
        return [mk("P9")]
    if pc == "P9":
        sh = shared
        if head == r["ho"]:
            sh = (((head[0] + 1) % N, head[1] + 1), tail, slots)
        return [mk("P1", sh=sh)]
    raise AssertionError(pc)


def main():
    init_shared = ((0, 0), (0, 0), tuple((None, 0) for _ in range(N)))
    init_threads = tuple(("L1", 0, ()) for _ in range(T))
    init = (init_shared, init_threads)
    seen = {init: None}
    q = deque([init])
    n = 0
    while q:
        st = q.popleft()
        n += 1
        shared, ths = st
        for tid in range(T):
            for sh2, th2, ev in step(shared, ths[tid], tid):
                ths2 = list(ths); ths2[tid] = th2
                st2 = (sh2, tuple(ths2))
                if st2 in seen:
                    continue
                seen[st2] = (st, tid, ev)
                if ev and ev[0] in ("POP-EMPTY", "PUSH-REJECTED"):
                    print("VIOLATION after exploring %d states: %s by thread %d (iteration %d)" % (n, ev[0], ev[1], ev[2]))
                    # trace
                    tr = []
                    cur = st2
                    while seen[cur] is not None:
                        prev, t_, e_ = seen[cur]
                        tr.append((t_, cur[1][t_][0], e_, cur[0]))
                        cur = prev
                    for t_, pc_, e_, sh_ in reversed(tr):
                        print("  T%d -> %-4s %-22s head=%s tail=%s slots=%s" % (t_, pc_, e_ or "", sh_[0], sh_[1], ["%s" % ("." if s[0] is None else "%d.%d" % (s[0][1], s[0][2])) for s in sh_[2]]))
                    return 1
                q.append(st2)
    print("no violation in %d states (N=%d, T=%d, ITERS=%d, %s)" % (n, N, T, ITERS, FIX))
    return 0


if __name__ == "__main__":
    sys.exit(main())
