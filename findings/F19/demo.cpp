// replay (statement level): kirsch_bounded_kfifo_queue::try_push advances tail ONTO the head segment when the ring is full but head's
// ABA tag was bumped in the meantime (queue_full() compares the whole tagged head) -> tail laps head, stored elements fall outside
// [head, tail], try_pop reports empty although an element is stored.
// Two logical threads T0/T1 are stepped by hand in the order found by an explicit-state exploration of the algorithm (model.py); every step
// is the corresponding statement of try_push / committed, sub-steps use the real private members.
#define private public
#include <xenium/kirsch_bounded_kfifo_queue.hpp>
#undef private
#include <cstdio>

using Q = xenium::kirsch_bounded_kfifo_queue<int*>;
using marked_idx = Q::marked_idx;
using marked_value = Q::marked_value;

int main() {
  Q q(1, 2);   // k = 1, two segments
  int a = 1, b = 2;
  const auto rlx = std::memory_order_relaxed;

  // T1: try_push(x), first loop iteration: reads tail and head
  marked_idx t1_tail_old = q._tail.load(rlx);
  marked_idx t1_head_old = q._head.load(rlx);

  // T0: try_push(&a) up to (and including) its slot CAS
  marked_idx t0_tail_old = q._tail.load(rlx);
  marked_idx t0_head_old = q._head.load(rlx);
  (void)t0_head_old;
  uint64_t idx;
  marked_value old_value;
  bool found = q.find_index<true>(t0_tail_old.get(), idx, old_value);
  if (!found || t0_tail_old != q._tail.load(rlx)) { std::printf("unexpected at line %d\n", __LINE__); return 2; }
  marked_value t0_new_value(&a, old_value.mark() + 1);
  if (!q._queue[idx].value.compare_exchange_strong(old_value, t0_new_value, std::memory_order_release, rlx)) { std::printf("unexpected at line %d\n", __LINE__); return 2; }

  // T0: committed(): value check, loads of tail and head, region tests -> "insertion at the head segment" branch, about to CAS head
  if (q._queue[idx].value.load(rlx) != t0_new_value) { std::printf("unexpected at line %d\n", __LINE__); return 2; }
  marked_idx t0_tail_current = q._tail.load(rlx);
  marked_idx t0_head_current = q._head.load(rlx);
  if (q.in_valid_region(t0_tail_old.get(), t0_tail_current.get(), t0_head_current.get()) ||
      q.not_in_valid_region(t0_tail_old.get(), t0_tail_current.get(), t0_head_current.get())) { std::printf("unexpected at line %d\n", __LINE__); return 2; }

  // T1: rest of the first iteration: the tail segment is occupied, the ring is not full -> advance tail
  uint64_t i1;
  marked_value ov1;
  if (q.find_index<true>(t1_tail_old.get(), i1, ov1)) { std::printf("unexpected at line %d\n", __LINE__); return 2; }
  if (t1_tail_old != q._tail.load(rlx)) { std::printf("unexpected at line %d\n", __LINE__); return 2; }
  if (q.queue_full(t1_head_old, t1_tail_old)) { std::printf("unexpected at line %d\n", __LINE__); return 2; }
  {
    marked_idx new_tail((t1_tail_old.get() + q._k) % q._queue_size, t1_tail_old.mark() + 1);
    q._tail.compare_exchange_strong(t1_tail_old, new_tail, rlx);
  }
  // T1: second iteration: reads tail and head (head still carries the old tag)
  t1_tail_old = q._tail.load(rlx);
  t1_head_old = q._head.load(rlx);

  // T0: committed() continues: bumps the tag of head (CAS succeeds) -> true, push returns true
  {
    marked_idx new_head(t0_head_current.get(), t0_head_current.mark() + 1);
    if (!q._head.compare_exchange_strong(t0_head_current, new_head, rlx)) { std::printf("unexpected at line %d\n", __LINE__); return 2; }
  }
  // T0: pop -> a ; push(&b) ; both complete operations of the real API
  int* r = nullptr;
  if (!q.try_pop(r) || r != &a) { std::printf("unexpected at line %d\n", __LINE__); return 2; }
  if (!q.try_push(&b)) { std::printf("unexpected at line %d\n", __LINE__); return 2; }
  std::printf("T0 has pushed b: head=%lu(tag %lu) tail=%lu\n", (unsigned long)q._head.load().get(), (unsigned long)q._head.load().mark(), (unsigned long)q._tail.load().get());

  // T1: rest of the second iteration
  if (q.find_index<true>(t1_tail_old.get(), i1, ov1)) { std::printf("unexpected at line %d\n", __LINE__); return 2; }          // tail segment holds b
  if (t1_tail_old != q._tail.load(rlx)) { std::printf("unexpected at line %d\n", __LINE__); return 2; }
  bool full = q.queue_full(t1_head_old, t1_tail_old);
  std::printf("T1: (tail + k) %% size == head index: %s, queue_full() returns %s (T1's head snapshot has tag %lu)\n",
              ((t1_tail_old.get() + q._k) % q._queue_size) == t1_head_old.get() ? "yes" : "no", full ? "true" : "false", (unsigned long)t1_head_old.mark());
  if (full) {
    std::printf("PASS: the full ring is recognised, tail is not advanced onto the head segment\n");
    return 0;
  }
#ifdef FIXED
  // the repaired try_push: the next segment is still the head segment but head has changed -> retry instead of advancing tail
  if (((t1_tail_old.get() + q._k) % q._queue_size) == t1_head_old.get()) {
    int* r2 = nullptr;
    bool ok2 = q.try_pop(r2);
    std::printf("T1 retries with fresh values (tail stays at %lu); T0: try_pop -> %s\n", (unsigned long)q._tail.load().get(), ok2 && r2 == &b ? "b" : "EMPTY");
    std::printf("%s\n", ok2 && r2 == &b ? "PASS" : "FAIL");
    return ok2 && r2 == &b ? 0 : 1;
  }
#endif
  {
    marked_idx new_tail((t1_tail_old.get() + q._k) % q._queue_size, t1_tail_old.mark() + 1);
    q._tail.compare_exchange_strong(t1_tail_old, new_tail, rlx);
  }
  std::printf("T1 advanced tail: head=%lu tail=%lu, b is stored in slot 1\n", (unsigned long)q._head.load().get(), (unsigned long)q._tail.load().get());
  // T0: pop must deliver b
  bool ok = q.try_pop(r);
  std::printf("T0: try_pop -> %s\n", ok ? "value" : "EMPTY");
  if (!ok) {
    std::printf("FAIL: try_pop reports an empty queue although b was pushed and never popped\n");
    return 1;
  }
  std::printf("PASS\n");
  return 0;
}
