#define private public
#include <xenium/kirsch_bounded_kfifo_queue.hpp>
#undef private
#include <atomic>
#include <cstdio>
#include <thread>
#include <vector>
int main(int argc,char**argv){
  int T=8; long iters= argc>1? atol(argv[1]) : 200000;
  xenium::kirsch_bounded_kfifo_queue<int*> q(1, T);
  std::atomic<int> bad{0};
  std::vector<std::thread> th;
  static int vals[8];
  for(int t=0;t<T;++t) th.emplace_back([&,t]{ for(long j=0;j<iters && !bad.load();++j){ if(!q.try_push(&vals[t])){ bad|=1; std::printf("thread %d iter %ld: push rejected\n",t,j); break;} int* e=nullptr; if(!q.try_pop(e)){ bad|=2; std::printf("thread %d iter %ld: pop empty\n",t,j); break;} } });
  for(auto&x:th)x.join();
  if(bad){ auto h=q._head.load(), tl=q._tail.load(); std::printf("head=%lu tail=%lu slots:", (unsigned long)h.get(), (unsigned long)tl.get()); for(int i=0;i<T;++i) std::printf(" %c", q._queue[i].value.load().get()? 'X':'.'); std::puts(""); }
  std::puts(bad? "FAIL":"PASS"); return bad?1:0; }
