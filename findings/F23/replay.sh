#!/bin/bash
# usage: replay.sh [repo=/repo]   - deterministic replay of F23 with gdb; exit 0 = map consistent, 1 = key lost (ABA in do_get_or_emplace_lazy)
REPO=${1:-/repo}
HERE=$(cd "$(dirname "$0")" && pwd)
D=$(mktemp -d "${TMPDIR:-/tmp}/f23.XXXXXX")
trap 'rm -rf "$D"' EXIT
g++ -std=c++17 -O0 -g -I"$REPO" "$HERE/replay_det.cpp" -pthread -o "$D/replay" || exit 2
F="$REPO/xenium/harris_michael_hash_map.hpp"
# the insert CAS of do_get_or_emplace_lazy: first compare_exchange_weak on info.prev after the function header
START=$(grep -n "::do_get_or_emplace_lazy(Key key, Factory node_factory)" "$F" | head -1 | cut -d: -f1)
REL=$(tail -n +"$START" "$F" | grep -n "info.prev->compare_exchange_weak" | head -1 | cut -d: -f1)
LINE=$((START + REL - 1))
cat > "$D/cmds.gdb" <<G
set pagination off
set confirm off
set print thread-events off
break harris_michael_hash_map.hpp:$LINE
run
delete
break main_step_done
set var request_step = 1
set scheduler-locking on
thread 1
continue
set scheduler-locking off
delete
continue
G
echo "replay: T1 stopped at harris_michael_hash_map.hpp:$LINE (in front of the insert CAS of do_get_or_emplace_lazy) while main runs erase(30); emplace(15)"
gdb -batch -x "$D/cmds.gdb" "$D/replay" > "$D/out.log" 2>&1
grep -E "^(T1|main|iteration|FAIL|PASS)" "$D/out.log"
if grep -q "^FAIL" "$D/out.log"; then exit 1; fi
if grep -q "^PASS" "$D/out.log"; then exit 0; fi
echo "replay did not complete:"; tail -20 "$D/out.log"; exit 2
