// F23 - deterministic replay of the ABA in harris_michael_hash_map::do_get_or_emplace_lazy (get_or_emplace / get_or_emplace_lazy / operator[])
// against the real code with the real hazard_pointer reclaimer (driven by replay.sh / gdb).
//
// do_get_or_emplace_lazy:   marked_ptr cur = info.cur.get();  info.cur.reset();  info.cur = guard_ptr(n);  n->next.store(cur);
//                           info.prev->compare_exchange_weak(cur, n)
// The guard on the successor 'cur' is given up BEFORE the CAS that expects its address.  Schedule (one bucket, 10 < 15 < 20 < 30 < 40):
//   list 10 -> 30 -> 40;  T1 get_or_emplace(20): find() => prev = &node(10).next, cur = node(30); T1 is stopped right before its CAS
//   main: erase(30)  -> unlinked, retired, reclaimed at once (nobody protects it any more)
//   main: emplace(15) -> the allocator hands out node(30)'s block again; linked right behind node(10)
//   T1 resumes: CAS(node(10).next, expected = that address, new = node(20)) succeeds  =>  10 -> 20 -> 15 -> 40
// Property (C08): an inserted key that was never erased is found; an insertion succeeds iff the key is absent.
// exit 0: after the schedule the map iterates in order, contains(15) and a second emplace(15) fails;  exit 1 otherwise.
// Without gdb the same operations run one after the other (no interleaving inside get_or_emplace): exit 0.
#include <xenium/harris_michael_hash_map.hpp>
#include <xenium/reclamation/hazard_pointer.hpp>

#include <atomic>
#include <chrono>
#include <cstdio>
#include <cstdlib>
#include <mutex>
#include <new>
#include <thread>

// allocator that re-uses the most recently freed block of the same size first (what glibc's per-thread cache does as well)
static std::mutex alloc_mutex;
static struct { std::size_t size; void* p; } free_blocks[4096];
static int n_free = 0;
struct hdr { std::size_t size; std::size_t pad; };
void* operator new(std::size_t sz) {
  {
    std::lock_guard<std::mutex> l(alloc_mutex);
    for (int i = n_free - 1; i >= 0; --i) {
      if (free_blocks[i].size == sz) {
        void* r = free_blocks[i].p;
        for (int j = i; j + 1 < n_free; ++j) free_blocks[j] = free_blocks[j + 1];
        --n_free;
        return r;
      }
    }
  }
  auto* h = static_cast<hdr*>(std::malloc(sizeof(hdr) + sz));
  if (!h) throw std::bad_alloc();
  h->size = sz;
  return h + 1;
}
void operator delete(void* p) noexcept {
  if (!p) return;
  std::lock_guard<std::mutex> l(alloc_mutex);
  if (n_free < 4096) {
    free_blocks[n_free].size = (static_cast<hdr*>(p) - 1)->size;
    free_blocks[n_free].p = p;
    ++n_free;
  }
}
void operator delete(void* p, std::size_t) noexcept { operator delete(p); }

using R = xenium::reclamation::hazard_pointer<xenium::reclamation::hazard_pointer_traits<>::with<
  xenium::policy::allocation_strategy<xenium::reclamation::hp_allocation::static_strategy<8, 0, 1>>>>; // scan at every retire
using map_t = xenium::harris_michael_hash_map<int, int, xenium::policy::reclaimer<R>, xenium::policy::buckets<1>>;

volatile int request_step = 0; // set by gdb when T1 is stopped in front of its CAS
static std::atomic<bool> t1_done{false};
extern "C" void main_step_done() { asm volatile("" ::: "memory"); }

int main() {
  map_t map;
  map.emplace(10, 100);
  map.emplace(30, 300);
  map.emplace(40, 400);
  std::thread t1([&] {
    auto r = map.get_or_emplace(20, 200);
    std::printf("T1: get_or_emplace(20) -> inserted=%d\n", (int)r.second);
    t1_done = true;
  });
  while (!request_step && !t1_done) {
    std::this_thread::sleep_for(std::chrono::milliseconds(1));
  }
  bool erased = map.erase(30);
  bool ins15 = map.emplace(15, 150);
  std::printf("main: erase(30) -> %d, emplace(15) -> %d%s\n", (int)erased, (int)ins15, request_step ? "   (while T1 is stopped in front of its CAS)" : "");
  main_step_done();
  t1.join();
  std::printf("iteration:");
  int prev = -1;
  bool ordered = true;
  for (auto it = map.begin(); it != map.end(); ++it) {
    std::printf(" %d", it->first);
    if (it->first <= prev) ordered = false;
    prev = it->first;
  }
  std::printf("\n");
  bool has15 = map.contains(15);
  bool again = map.emplace(15, 151);
  if (ordered && has15 && !again) {
    std::printf("PASS: the bucket is ordered, contains(15) == true, a second emplace(15) is rejected\n");
    return 0;
  }
  std::printf("FAIL: ordered=%d contains(15)=%d second emplace(15) succeeded=%d - key 15 was inserted, never erased, and is lost / duplicated\n",
              (int)ordered, (int)has15, (int)again);
  return 1;
}
