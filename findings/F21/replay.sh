#!/bin/bash
# usage: replay.sh [repo=/repo]   - deterministic replay of F21 with gdb; exit 0 = guard protected its node, 1 = node destroyed under the guard
REPO=${1:-/repo}
HERE=$(cd "$(dirname "$0")" && pwd)
D=$(mktemp -d "${TMPDIR:-/tmp}/f21.XXXXXX")
trap 'rm -rf "$D"' EXIT
g++ -std=c++17 -O0 -g -I"$REPO" "$HERE/replay_det.cpp" -pthread -o "$D/replay" || exit 2
F="$REPO/xenium/reclamation/impl/hazard_eras.hpp"
# first era_clock.load inside acquire_if_equal; stop on the line after it (the era has been read, nothing published yet)
START=$(grep -n "guard_ptr<T, MarkedPtr>::acquire_if_equal" "$F" | head -1 | cut -d: -f1)
REL=$(tail -n +"$START" "$F" | grep -n "= era_clock.load(" | head -1 | cut -d: -f1)
LINE=$((START + REL))
cat > "$D/cmds.gdb" <<G
set pagination off
set confirm off
set print thread-events off
break hazard_eras.hpp:$LINE
run
delete
break writer_step_done
set var request_step = 1
set scheduler-locking on
thread 2
continue
set scheduler-locking off
delete
continue
G
echo "replay: reader stopped at hazard_eras.hpp:$LINE (era read, not yet published) while the writer runs step 1"
gdb -batch -x "$D/cmds.gdb" "$D/replay" > "$D/out.log" 2>&1
grep -E "^(reader|  writer|FAIL|PASS)" "$D/out.log"
if grep -q "^FAIL" "$D/out.log"; then exit 1; fi
if grep -q "^PASS\|returned false" "$D/out.log"; then exit 0; fi
echo "replay did not complete:"; tail -20 "$D/out.log"; exit 2
