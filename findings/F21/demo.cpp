// F21 - hazard_eras::guard_ptr::acquire_if_equal is not ABA-safe: it publishes the era it read BEFORE re-reading the pointer, and accepts the
// re-read pointer when only its ADDRESS equals the first read.  When the first object is unlinked, reclaimed, its memory re-used for a new
// object (constructed in a later era) and that object is linked at the same place in between, the guard ends up "protecting" the new object
// with an era older than the object's construction era - i.e. not at all: the object is reclaimed while the guard is held.
// (hazard_eras::guard_ptr::acquire loops until the era is stable and is not affected.)
//
// build: g++ -std=c++17 -O1 -g -I/repo demo.cpp -pthread -o demo       run: ./demo [seconds=20]
// exit 0: no guard ever lost its object; exit 1: an object was destroyed while a guard returned by acquire_if_equal() held it.
#include <xenium/reclamation/hazard_eras.hpp>

#include <atomic>
#include <chrono>
#include <cstdio>
#include <cstdlib>
#include <mutex>
#include <thread>
#include <vector>

using R = xenium::reclamation::hazard_eras<xenium::reclamation::hazard_era_traits<>::with<
  xenium::policy::allocation_strategy<xenium::reclamation::he_allocation::static_strategy<3, 0, 1>>>>;

// LIFO pool: a freed block is handed out by the next allocation (what a thread-caching malloc does, made deterministic);
// memory is never returned to the OS, so looking at a destroyed node is harmless for the demo
struct pool {
  std::mutex m;
  std::vector<void*> free_;
  void* get(std::size_t sz) {
    std::lock_guard<std::mutex> l(m);
    if (free_.empty()) return std::malloc(sz);
    void* r = free_.back();
    free_.pop_back();
    return r;
  }
  void put(void* p) {
    std::lock_guard<std::mutex> l(m);
    free_.push_back(p);
  }
};
static pool node_pool;
static std::atomic<std::uint64_t> next_id{1};

struct node : R::enable_concurrent_ptr<node> {
  std::atomic<std::uint64_t> id{next_id.fetch_add(1, std::memory_order_relaxed)};
  std::atomic<bool> dead{false};
  ~node() { dead.store(true, std::memory_order_release); }
  static void* operator new(std::size_t sz) { return node_pool.get(sz); }
  static void operator delete(void* p) { node_pool.put(p); }
};
struct dummy : R::enable_concurrent_ptr<dummy> {};

int main(int argc, char** argv) {
  const int seconds = argc > 1 ? std::atoi(argv[1]) : 20;
  R::concurrent_ptr<node> shared{new node};
  std::atomic<bool> stop{false};
  std::atomic<std::uint64_t> lost{0}, acquired{0};

  auto reader = [&] {
    R::concurrent_ptr<node>::guard_ptr g;
    std::uint64_t n = 0, bad = 0;
    while (!stop.load(std::memory_order_relaxed)) {
      auto expected = shared.load(std::memory_order_relaxed);
      if (!g.acquire_if_equal(shared, expected, std::memory_order_acquire)) continue;
      ++n;
      // g holds a node: until g is reset/re-acquired the node must stay alive and must stay THE SAME object
      const auto id1 = g->id.load(std::memory_order_acquire);
      for (int i = 0; i < 200; ++i) {
        if (g->dead.load(std::memory_order_acquire) || g->id.load(std::memory_order_acquire) != id1) {
          ++bad;
          break;
        }
      }
    }
    lost += bad;
    acquired += n;
  };
  auto writer = [&] {
    while (!stop.load(std::memory_order_relaxed)) {
      // other retirements advance the era clock (as other threads working on the same reclaimer do)
      R::concurrent_ptr<dummy>::guard_ptr d(new dummy);
      d.reclaim();
      node* fresh = new node; // re-uses the most recently reclaimed block
      auto old = shared.load(std::memory_order_relaxed);
      shared.store(fresh, std::memory_order_release);
      R::concurrent_ptr<node>::guard_ptr og(old);
      og.reclaim(); // unlinked -> retire
    }
  };
  std::vector<std::thread> ts;
  ts.emplace_back(writer);
  const unsigned readers = 3 * std::max(4u, std::thread::hardware_concurrency());
  for (unsigned i = 0; i < readers; ++i) ts.emplace_back(reader);
  std::this_thread::sleep_for(std::chrono::seconds(seconds));
  stop = true;
  for (auto& t : ts) t.join();
  std::printf("%llu successful acquire_if_equal, %llu guards lost their object (destroyed or replaced while the guard was held)\n",
              (unsigned long long)acquired.load(), (unsigned long long)lost.load());
  if (lost.load() != 0) {
    std::printf("FAIL: a hazard_eras guard returned by acquire_if_equal() did not protect its object\n");
    return 1;
  }
  std::printf("PASS\n");
  return 0;
}
