// F21 - deterministic replay of the ABA in hazard_eras::guard_ptr::acquire_if_equal against the real code (driven by replay.sh / gdb).
//
// The reader (main thread) calls acquire_if_equal(shared, expected).  replay.sh stops it inside that call right after it has read the era
// clock (and before it publishes that era), lets the writer thread run "step 1" to completion, and resumes the reader:
//   step 1 (writer): unlink the node the reader has just read (O1), retire it  -> reclaimed (no era protects it yet), retire something else
//                    (the era clock advances), allocate a new node - the allocator hands out O1's block again -, link it at the same place.
// The reader then publishes the OLD era, re-reads the pointer, finds the same address and returns true - holding a guard on a node whose
// construction era is newer than the guard's era.
//   step 2 (writer, requested by the program itself): unlink that node and retire it.
// Property (C15/C01): an object is not reclaimed while a guard_ptr that was successfully acquired on it is alive.
// exit 0: the guarded node is still alive after step 2;  exit 1: it was destroyed under the live guard.
// Without gdb the program runs the same steps one after the other (no interleaving inside acquire_if_equal) and exits 0.
#include <xenium/reclamation/hazard_eras.hpp>

#include <atomic>
#include <cstdio>
#include <cstdlib>
#include <thread>
#include <vector>

using R = xenium::reclamation::hazard_eras<xenium::reclamation::hazard_era_traits<>::with<
  xenium::policy::allocation_strategy<xenium::reclamation::he_allocation::static_strategy<3, 0, 1>>>>; // scan at every retire

static std::vector<void*> free_blocks; // LIFO: the most recently freed block is re-used first (only the writer allocates/frees concurrently)
static std::uint64_t next_id = 1;

struct node : R::enable_concurrent_ptr<node> {
  std::uint64_t id = next_id++;
  bool* dead_flag;
  explicit node(bool* d) : dead_flag(d) {}
  ~node() { *dead_flag = true; }
  static void* operator new(std::size_t sz) {
    if (free_blocks.empty()) return std::malloc(sz);
    void* r = free_blocks.back();
    free_blocks.pop_back();
    return r;
  }
  static void operator delete(void* p) { free_blocks.push_back(p); }
};
struct dummy : R::enable_concurrent_ptr<dummy> {};
using guard = R::concurrent_ptr<node>::guard_ptr;

static R::concurrent_ptr<node> shared;
static bool dead[16];
static int nodes_made = 0;
volatile int request_step = 0; // set by gdb (step 1) or by the program
static std::atomic<int> done_step{0};

static void replace_and_retire() {
  node* fresh = new node(&dead[nodes_made++]);
  auto old = shared.load(std::memory_order_relaxed);
  shared.store(fresh, std::memory_order_release);
  std::printf("  writer: unlinked node #%llu at %p, linked node #%llu at %p\n", (unsigned long long)old->id, (void*)old.get(),
              (unsigned long long)fresh->id, (void*)fresh);
  guard og(old);
  og.reclaim();
}
static void retire_something_else() {
  R::concurrent_ptr<dummy>::guard_ptr d(new dummy);
  d.reclaim();
}

extern "C" void writer_step_done(int) {} // gdb stops the writer here

static void writer() {
  for (int step = 1; step <= 2; ++step) {
    while (request_step < step) std::this_thread::yield();
    if (step == 1) {
      replace_and_retire();    // O1 unlinked, retired and (unprotected) reclaimed
      retire_something_else(); // era clock advances
      replace_and_retire();    // new node in O1's block, linked at the same place
    } else {
      replace_and_retire(); // unlink + retire the node the reader holds
      retire_something_else();
    }
    done_step.store(step, std::memory_order_release);
    writer_step_done(step);
  }
}

int main() {
  shared.store(new node(&dead[nodes_made++]), std::memory_order_release);
  std::thread w(writer);
  int rc = 0;
  {
    guard g;
    auto expected = shared.load(std::memory_order_relaxed);
    std::printf("reader: acquire_if_equal(shared, %p)\n", (void*)expected.get());
    bool ok = g.acquire_if_equal(shared, expected, std::memory_order_acquire);
    if (done_step.load(std::memory_order_acquire) < 1) { // not driven by gdb: run step 1 now
      request_step = 1;
      while (done_step.load(std::memory_order_acquire) < 1) std::this_thread::yield();
    }
    if (!ok) {
      std::printf("reader: acquire_if_equal returned false (the change of `shared` was noticed)\n");
    } else {
      const auto id = g->id;
      bool* flag = g->dead_flag;
      std::printf("reader: acquire_if_equal returned true, guard holds node #%llu at %p\n", (unsigned long long)id, (void*)g.get());
      request_step = 2;
      while (done_step.load(std::memory_order_acquire) < 2) std::this_thread::yield();
      if (*flag) {
        std::printf("FAIL: node #%llu was destroyed while the guard_ptr returned by acquire_if_equal() still holds it\n", (unsigned long long)id);
        rc = 1;
      } else {
        std::printf("PASS: node #%llu is still alive under the guard\n", (unsigned long long)id);
      }
    }
    request_step = 2;
    while (done_step.load(std::memory_order_acquire) < 2) std::this_thread::yield();
  }
  w.join();
  return rc;
}
