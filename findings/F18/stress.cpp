// stress: owner pushes (forcing in-place growth) while thieves steal; every item must be delivered exactly once
#include <xenium/chase_work_stealing_deque.hpp>
#include <atomic>
#include <cstdio>
#include <thread>
#include <vector>
using D = xenium::chase_work_stealing_deque<int, xenium::policy::capacity<2>, xenium::policy::container<xenium::detail::growing_circular_array<int, 2, 1 << 20>>>;
int main(int argc, char** argv) {
  int rounds = argc > 1 ? atoi(argv[1]) : 20000;
  const int N = 3000;
  static std::vector<int> items(N);
  long bad = 0;
  for (int r = 0; r < rounds && !bad; ++r) {
    D d;
    std::vector<std::atomic<int>> seen(N);
    for (auto& s : seen) s = 0;
    std::atomic<bool> done{false};
    auto thief = [&] {
      int* p;
      while (!done.load(std::memory_order_acquire)) if (d.try_steal(p)) seen[p - items.data()].fetch_add(1);
      while (d.try_steal(p)) seen[p - items.data()].fetch_add(1);
    };
    std::thread t1(thief), t2(thief), t3(thief);
    for (int i = 0; i < N; ++i) { while (!d.try_push(&items[i])) {} }
    done.store(true, std::memory_order_release);
    t1.join(); t2.join(); t3.join();
    int* p;
    while (d.try_pop(p)) seen[p - items.data()].fetch_add(1);
    for (int i = 0; i < N; ++i) if (seen[i] != 1) { ++bad; std::printf("round %d: item %d delivered %d times\n", r, i, seen[i].load()); }
  }
  std::printf("%s\n", bad ? "FAIL" : "PASS");
  return bad ? 1 : 0;
}
