// replay: a thief that has read the old capacity inside growing_circular_array::get() reads, after an in-place growth, a slot
// that the owner has already re-used for a newer index -> it steals the wrong item: one item is lost, another one delivered twice
#define private public
#include <xenium/chase_work_stealing_deque.hpp>
#undef private
#include <cstdio>
#include <set>

using D = xenium::chase_work_stealing_deque<int, xenium::policy::capacity<4>, xenium::policy::container<xenium::detail::growing_circular_array<int, 4, 64>>>;

int main() {
  D d;
  static int items[16];
  for (int i = 0; i < 16; ++i) items[i] = i;
  // make top = bottom = 4 so that the live indices 4..7 occupy slots 0..3 (capacity 4)
  for (int i = 0; i < 4; ++i) d.try_push(&items[i]);
  int* r;
  for (int i = 0; i < 4; ++i) d.try_steal(r);
  for (int i = 4; i < 8; ++i) d.try_push(&items[i]);   // deque holds 4,5,6,7 at indices 4..7; it is full
  // --- thief: the statements of try_steal(), executed up to the capacity load inside get()
  auto t = d._top.load(std::memory_order_relaxed);
  auto b = d._bottom.load(std::memory_order_seq_cst);
  auto size = static_cast<std::intptr_t>(b) - static_cast<std::intptr_t>(t);
  if (size <= 0) return 2;
  auto capacity = d._items._capacity.load(std::memory_order_acquire);   // first statement of _items.get(t, relaxed)
  // --- owner: pushes one more item: the full deque grows in place (capacity 4 -> 8) and the new item is stored
  d.try_push(&items[8]);
  // --- thief resumes: second statement of get(), then the CAS of try_steal()
#ifndef FIXED
  int* item = d._items.get_entry(t, capacity).load(std::memory_order_relaxed);   // remaining statement of the original get()
#else
  int* item;                                                                      // remaining statements of the repaired get()
  for (;;) {
    item = d._items.get_entry(t, capacity).load(std::memory_order_acquire);
    auto current_capacity = d._items._capacity.load(std::memory_order_acquire);
    if (current_capacity == capacity) break;
    capacity = current_capacity;
  }
#endif
  bool won = d._top.compare_exchange_strong(t, t + 1, std::memory_order_seq_cst, std::memory_order_relaxed);
  std::printf("thief: index %zu, capacity snapshot %zu, CAS %s, stole item %d (the item at that index is %d)\n", (size_t)t, (size_t)capacity,
              won ? "won" : "lost", *item, 4);
  std::multiset<int> got;
  if (won) got.insert(*item);
  while (d.try_pop(r)) got.insert(*r);
  bool ok = true;
  for (int i = 4; i <= 8; ++i) {
    if (got.count(i) != 1) { std::printf("item %d delivered %zu times\n", i, got.count(i)); ok = false; }
  }
  std::printf("%s\n", ok ? "PASS" : "FAIL: an item was lost and another one delivered twice");
  return ok ? 0 : 1;
}
