// F22 (C16, C10): vyukov_hash_map::try_get_value never returns when an extension item's hash equals the hash of the key that is
// looked up but the keys differ (non-trivial keys: the bucket stores the hash, the key is compared second).  Single threaded.
// build: g++ -std=c++17 -O1 -g -I<xenium tree> demo.cpp -pthread ; exit 0 = PASS, 1 = FAIL (lookup still running after 3 s)
#include <xenium/vyukov_hash_map.hpp>
#include <xenium/reclamation/generic_epoch_based.hpp>
#include <atomic>
#include <chrono>
#include <cstdio>
#include <cstdlib>
#include <string>
#include <thread>

struct same_hash {
  std::size_t operator()(const std::string&) const { return 42; }  // every key collides
};

int main() {
  using map_t = xenium::vyukov_hash_map<std::string, int, xenium::policy::reclaimer<xenium::reclamation::epoch_based<>>,
                                        xenium::policy::hash<same_hash>>;
  std::atomic<int> stage{0};
  std::thread worker([&] {
    map_t map;
    // a bucket holds 3 items inline; the 4th and 5th colliding key go to the extension list
    for (int i = 0; i < 5; ++i) {
      map.emplace("key" + std::to_string(i), i);
    }
    stage = 1;
    typename map_t::accessor acc;
    bool found = map.try_get_value("key4", acc);  // key3 is examined first: hash equal, key different
    stage = found ? 2 : 3;
    bool missing = map.try_get_value("absent", acc);
    stage = missing ? 3 : 4;
  });
  for (int i = 0; i < 30 && stage != 4 && stage != 3; ++i) {
    std::this_thread::sleep_for(std::chrono::milliseconds(100));
  }
  if (stage == 4) {
    worker.join();
    std::puts("PASS: lookups of a colliding present and a colliding absent key returned");
    return 0;
  }
  std::printf("FAIL: try_get_value did not return as expected (stage %d: 1 = first lookup never returned, 2 = lookup of the absent key "
              "never returned, 3 = wrong result)\n", stage.load());
  std::fflush(stdout);
  std::_Exit(1);
}
