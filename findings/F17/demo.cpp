// replay: a pusher that was delayed between reading tail and its slot CAS commits its element into a segment that
// is no longer between head and tail (ring wrapped) -> push reports success, the element is unreachable for pop
#define private public
#include <xenium/kirsch_bounded_kfifo_queue.hpp>
#undef private
#include <cstdio>
#include <vector>

using Q = xenium::kirsch_bounded_kfifo_queue<int*>;

static bool scenario(int attempt) {
  Q q(2, 6);  // k = 2, 6 segments -> ring of 12 slots
  std::vector<int> store(32);
  int next = 0;
  auto push = [&] { int* p = &store[next]; *p = next; ++next; return q.try_push(p); };
  // a. seven pushes: segments [0,1], [2,3], [4,5] full, the seventh element goes to segment [6,7]
  for (int i = 0; i < 7; ++i) if (!push()) return false;
  if (q._tail.load().get() != 6) return false;
  if (q._queue[6].value.load().get() == nullptr) return false;  // landed in slot 5 (random start): retry the scenario
  // snapshot of the delayed pusher P: tail_old = 6, free slot 7 with its current tag
  auto tail_old = q._tail.load();
  auto old_value = q._queue[7].value.load();
  if (old_value.get() != nullptr) return false;
  // b. other threads pop everything
  int* r;
  for (int i = 0; i < 7; ++i) if (!q.try_pop(r)) return false;
  if (q.try_pop(r)) return false;
  // c. other threads push seven more elements: [8,9], [10,11], wrap to [0,1], then [2,3]
  for (int i = 0; i < 7; ++i) if (!push()) return false;
  std::printf("attempt %d: head=%lu tail=%lu (wrapped), P's stale tail_old=%lu\n", attempt, (unsigned long)q._head.load().get(),
              (unsigned long)q._tail.load().get(), (unsigned long)tail_old.get());
  // d. P resumes: exactly the two steps try_push performs after its snapshot
  int x = 4711;
  Q::marked_value new_value(&x, old_value.mark() + 1);
  bool cas = q._queue[7].value.compare_exchange_strong(old_value, new_value, std::memory_order_release, std::memory_order_relaxed);
  bool committed = cas && q.committed(tail_old, new_value, 7);
  std::printf("P: slot CAS %s, committed() -> %s\n", cas ? "succeeded" : "failed", committed ? "true (push returns true)" : "false (push retries)");
  if (!committed) {
    std::printf("PASS: the stale insertion was rolled back\n");
    return true;
  }
  // e. drain sequentially
  bool seen = false;
  int n = 0;
  while (q.try_pop(r)) { ++n; if (r == &x) seen = true; }
  std::printf("drained %d elements, P's element %s\n", n, seen ? "was delivered" : "was NOT delivered: pop reports empty");
  if (!seen) { std::printf("FAIL: a successfully pushed element is lost (stuck outside [head, tail])\n"); std::exit(1); }
  std::printf("PASS\n");
  return true;
}

int main() {
  for (int a = 0; a < 200; ++a) if (scenario(a)) return 0;
  std::printf("scenario not reached\n");
  return 2;
}
