// F24 - deterministic replay against the real code (driven by replay.sh / gdb): kirsch_bounded_kfifo_queue::committed() reads _tail first and
// _head second.  A pusher that is delayed between the two loads pairs a STALE tail with a FRESH head; once head has moved past that stale tail
// the pair looks like a wrapped ring (tail < head) and in_valid_region() accepts a segment that lies behind head.
//
// k = 2, 4 segments (indexes 0,2,4,6).  P = pusher thread, main = everybody else.
//   main: push(w)                       -> w in segment 0            head=0 tail=0
//   P:    try_push(v): finds the free slot of segment 0, is stopped right before its slot CAS
//   main: pop -> w  (head==tail: tail advanced to 2 first), pop -> empty (segment 0 scanned empty, head advanced to 2)     head=2 tail=2
//   P:    slot CAS succeeds (the slot is still empty), enters committed(): reads tail_current = 2, is stopped before the head load
//   main: push(x) (segment 2), pop -> x (tail advanced to 4), pop -> empty (head advanced to 4)                          head=4 tail=4
//   P:    reads head_current = 4:  tail_current(2) < head_current(4) "wrap around";  in_valid_region: tail_old(0) <= tail_current(2) -> true
//         => committed() returns true, try_push reports success, v sits in segment 0 which is behind head.
// Property (C06): a pushed value is never lost; pop reports 'empty' exactly when the queue is empty if no operation runs concurrently.
// exit 0: after P returned true a single-threaded pop delivers v;  exit 1: pop reports empty while v is stored.
// Without gdb the same operations run one after the other: exit 0.
#include <xenium/kirsch_bounded_kfifo_queue.hpp>

#include <atomic>
#include <chrono>
#include <cstdio>
#include <thread>

using queue_t = xenium::kirsch_bounded_kfifo_queue<int*>;

volatile int request_step = 0; // set by gdb
static std::atomic<bool> p_done{false};
static std::atomic<bool> p_result{false};
extern "C" void p_thread_start() { asm volatile("" ::: "memory"); }
extern "C" void main_step_done() { asm volatile("" ::: "memory"); }

static void wait_for(int step) {
  while (request_step < step && !p_done) {
    std::this_thread::sleep_for(std::chrono::milliseconds(1));
  }
}

int main() {
  queue_t q(2, 4);
  int w = 1, v = 2, x = 3;
  int* out = nullptr;
  q.try_push(&w);
  std::thread p([&] {
    p_thread_start();
    p_result = q.try_push(&v);
    p_done = true;
  });
  wait_for(1);
  bool a = q.try_pop(out);
  bool b = q.try_pop(out);
  std::printf("main: step 1: pop -> %d, pop -> %d\n", (int)a, (int)b);
  main_step_done();
  wait_for(2);
  bool c = q.try_push(&x);
  bool d = q.try_pop(out);
  bool e = q.try_pop(out);
  std::printf("main: step 2: push(x) -> %d, pop -> %d, pop -> %d\n", (int)c, (int)d, (int)e);
  main_step_done();
  p.join();
  std::printf("P: try_push(v) returned %d\n", (int)p_result.load());
  if (!request_step) {
    // sequential run: v was pushed after everything else
  }
  out = nullptr;
  bool got = q.try_pop(out);
  if (p_result && got && out == &v) {
    std::printf("PASS: the value whose push succeeded is delivered by the next pop\n");
    return 0;
  }
  if (!p_result) {
    std::printf("PASS: try_push(v) was rejected (nothing stored)\n");
    return 0;
  }
  int laps = 0;
  // how long until it reappears?
  int dummy[64];
  int pushed = 0;
  while (!(got && out == &v) && laps < 64) {
    q.try_push(&dummy[laps]);
    ++pushed;
    got = q.try_pop(out);
    ++laps;
  }
  std::printf("FAIL: try_push(v) returned true, but a single-threaded try_pop right afterwards reports an empty queue; v was delivered only after %d "
              "further push/pop pairs (overtaken by %d younger values; k-1 = 1 allowed)\n", laps, pushed - 1);
  return 1;
}
