#!/bin/bash
# usage: replay.sh [repo=/repo]  - deterministic replay of F24 with gdb; exit 0 = pushed value delivered, 1 = stranded behind head
REPO=${1:-/repo}
HERE=$(cd "$(dirname "$0")" && pwd)
D=$(mktemp -d "${TMPDIR:-/tmp}/f24.XXXXXX")
trap 'rm -rf "$D"' EXIT
g++ -std=c++17 -O0 -g -I"$REPO" "$HERE/replay_det.cpp" -pthread -o "$D/rp24" || exit 2
F="$REPO/xenium/kirsch_bounded_kfifo_queue.hpp"
# L1: the slot CAS of try_push (the 'if' that starts it); L2: the _head load in committed() (the _tail value has been read before)
S1=$(grep -n "::try_push(value_type value)" "$F" | head -1 | cut -d: -f1)
R1=$(tail -n +"$S1" "$F" | grep -n "if (_queue\[idx\].value.compare_exchange_strong(" | head -1 | cut -d: -f1)
L1=$((S1 + R1 - 1))
S2=$(grep -n "::committed(const marked_idx& tail_old" "$F" | head -1 | cut -d: -f1)
R2=$(tail -n +"$S2" "$F" | grep -n "_head.load(" | head -1 | cut -d: -f1)
L2=$((S2 + R2 - 1))
cat > "$D/cmds.gdb" <<G
set pagination off
set confirm off
set print thread-events off
break p_thread_start
run
delete
break kirsch_bounded_kfifo_queue.hpp:$L1 thread 2
break kirsch_bounded_kfifo_queue.hpp:$L2 thread 2
continue
set var request_step = 1
break main_step_done
set scheduler-locking on
thread 1
continue
set scheduler-locking off
thread 2
continue
set var request_step = 2
set scheduler-locking on
thread 1
continue
set scheduler-locking off
delete
continue
G
echo "replay: P stopped at kirsch_bounded_kfifo_queue.hpp:$L1 (before its slot CAS), then at :$L2 (in committed(): tail has been read, head not yet)"
gdb -batch -x "$D/cmds.gdb" "$D/rp24" > "$D/out.log" 2>&1
grep -E "^(P:|main|FAIL|PASS)" "$D/out.log"
if grep -q "^FAIL" "$D/out.log"; then exit 1; fi
if grep -q "^PASS" "$D/out.log"; then exit 0; fi
echo "replay did not complete:"; tail -20 "$D/out.log"; exit 2
