// Demo for change 2 (nikolaev_scq::enqueue resets the threshold before publishing the entry).
//
// One producer pushes the values 0,1,2,... into a nikolaev_bounded_queue, one at a time: it pushes
// value i and then waits until some consumer has popped it. A few consumers poll the (mostly empty)
// queue with try_pop. This is the classic "consumers poll, producer pushes now and then" usage.
//
// Specification: once try_push(i) has returned true and nobody has popped i yet, the queue is not
// empty, hence a try_pop that starts afterwards must not report "empty". So value i must be popped
// promptly. The demo fails if a successfully pushed value is not popped within 2 seconds although
// the consumers keep calling try_pop (they all get "empty"), and it also verifies FIFO order.
//
// usage: demo [capacity=8] [consumers=3] [rounds=1000000]
#include <xenium/nikolaev_bounded_queue.hpp>

#include <atomic>
#include <chrono>
#include <cstdio>
#include <cstdlib>
#include <thread>
#include <vector>

int main(int argc, char** argv) {
  const std::size_t capacity = argc > 1 ? std::strtoul(argv[1], nullptr, 10) : 8;
  const int consumers = argc > 2 ? std::atoi(argv[2]) : 3;
  const long rounds = argc > 3 ? std::atol(argv[3]) : 1000000;

  xenium::nikolaev_bounded_queue<long> queue(capacity);

  std::atomic<long> consumed{0}; // number of values popped so far == next expected value
  std::atomic<bool> stop{false};
  std::atomic<bool> fifo_error{false};
  std::atomic<unsigned long> empty_verdicts{0};

  std::vector<std::thread> threads;
  for (int c = 0; c < consumers; ++c) {
    threads.emplace_back([&] {
      while (!stop.load(std::memory_order_relaxed)) {
        long v = -1;
        if (queue.try_pop(v)) {
          if (v != consumed.load(std::memory_order_relaxed)) {
            std::printf("FAIL: popped %ld, expected %ld\n", v, consumed.load());
            fifo_error.store(true);
          }
          consumed.store(v + 1, std::memory_order_release);
        } else {
          empty_verdicts.fetch_add(1, std::memory_order_relaxed);
        }
      }
    });
  }

  int rc = 0;
  for (long i = 0; i < rounds && rc == 0; ++i) {
    while (!queue.try_push(i)) {
      // the consumer that popped i-1 may still hold the slot for a moment
      std::this_thread::yield();
    }
    // try_push(i) has returned true: from now on the queue is non-empty until i gets popped
    const auto pushed_at = std::chrono::steady_clock::now();
    const auto empties_at_push = empty_verdicts.load();
    unsigned spins = 0;
    while (consumed.load(std::memory_order_acquire) <= i) {
      if ((++spins & 0xfff) == 0 && std::chrono::steady_clock::now() - pushed_at > std::chrono::seconds(2)) {
        std::printf("FAIL: try_push(%ld) returned true 2s ago, the value was never popped, but %lu try_pop calls "
                    "that started afterwards reported an empty queue\n",
                    i,
                    empty_verdicts.load() - empties_at_push);
        rc = 1;
        break;
      }
    }
    if (fifo_error.load()) {
      rc = 1;
    }
  }

  stop.store(true);
  for (auto& t : threads) {
    t.join();
  }

  if (rc == 0) {
    long v;
    if (queue.try_pop(v)) {
      std::printf("FAIL: queue should be empty at the end, but popped %ld\n", v);
      rc = 1;
    }
  } else {
    // single threaded now: the queue still claims to be empty although one value is in it
    long v;
    bool popped = queue.try_pop(v);
    std::printf("single threaded try_pop after the failure: %s\n", popped ? "succeeded" : "reports empty");
  }

  if (rc == 0) {
    std::printf("PASS: %ld values pushed and popped in order (capacity %zu, %d consumers)\n", rounds, capacity, consumers);
  }
  return rc;
}
